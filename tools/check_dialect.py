"""C11: every cell of CifDialect.tla's decision table is encoded as probe documents and parsed by the library."""
import json, os
from vlib import *

ENC = {"utf8": ("utf-8", b"\xef\xbb\xbf"), "utf16le": ("utf-16-le", b"\xff\xfe"), "utf16be": ("utf-16-be", b"\xfe\xff"),
       "utf32le": ("utf-32-le", b"\xff\xfe\x00\x00"), "utf32be": ("utf-32-be", b"\x00\x00\xfe\xff"), "latin1": ("latin-1", b"")}
ICU_NAME = {"latin1": "ISO-8859-1", "utf8": "UTF-8", "utf16le": "UTF-16LE", "utf16be": "UTF-16BE", "utf32le": "UTF-32LE", "utf32be": "UTF-32BE"}
MAGIC = {"none": "", "v10": "#\\#CIF_1.0\n", "v11": "#\\#CIF_1.1\n", "v20": "#\\#CIF_2.0\n", "late": "\n#\\#CIF_2.0\n"}
# probes whose reading differs between the dialects; "x" = ASCII only, "u" = with non-ASCII characters
PROBES = {"x": "data_p\n_f\n;\\\nab\\\ncd\n;\n_l [a b]\n_q 'c'\n", "u": "data_p\n_f\n;\\\nab\\\ncd\n;\n_u 'é€𝄞'\n"}


def expected_items(version, probe):
    items = {}
    items["_f"] = {"k": "char", "t": "abcd" if version == 2 else "\\\nab\\\ncd", "q": 1}
    if probe == "x":
        if version == 2:
            items["_l"] = {"k": "list", "e": [{"k": "char", "t": "a", "q": 0}, {"k": "char", "t": "b", "q": 0}]}
        else:
            items["_l"] = {"k": "char", "t": "[a", "q": 1}
        items["_q"] = {"k": "char", "t": "c", "q": 1}
    else:
        items["_u"] = {"k": "char", "t": "é€𝄞", "q": 1}
    return items


def c11(tier, replay=None):
    rep = Report("C11", tier, "model_checking")
    binary = build("asan")
    cfg = ("SPECIFICATION Spec\nCONSTANTS\n MAGICS = {\"none\", \"v10\", \"v11\", \"v20\", \"late\"}\n BOMS = {\"none\", \"start\", \"inner\"}\n PREFERS <- MCPrefers\n"
           " ENCS = {\"utf8\", \"utf16le\", \"utf16be\", \"utf32le\", \"utf32be\", \"latin1\"}\n NAMEDS = {\"none\", \"latin1\"}\n FORCES = {0, 1}\n SystemDefault = \"utf8\"\n"
           "INVARIANT Total\nINVARIANT EmitCell\nCHECK_DEADLOCK FALSE\n")
    wd = scratch_dir("dialect")
    open(os.path.join(wd, "MCDialect.tla"), "w").write("---- MODULE MCDialect ----\nEXTENDS CifDialect\nMCPrefers == {-1, 0, 1, 19, 20}\n====\n")
    shutil.copy(os.path.join(SPEC, "CifDialect.tla"), wd)
    cfgp = os.path.join(wd, "MCDialect.cfg"); open(cfgp, "w").write(cfg)
    out = os.path.join(wd, "tlc.out")
    with open(out, "w") as fo:
        subprocess.run(["tlc", "-workers", "4", "-metadir", os.path.join(wd, "meta"), "-config", cfgp, os.path.join(wd, "MCDialect.tla")], stdout=fo, stderr=subprocess.STDOUT, cwd=wd, timeout=600)
    text = open(out, errors="replace").read()
    if "No error has been found" not in text:
        cleanup(wd); raise Infra("TLC failed on CifDialect: " + text[-1500:])
    m = re.search(r"(\d+) states generated, (\d+) distinct states found", text)
    cells = [o for tag, o in iter_tlc_json(out, ("CELL",))]
    cleanup(wd)
    jobs = []
    for ci, o in enumerate(cells):
        c, exp = o["c"], o["o"]
        for probe in ("x", "u"):
            if c["enc"] == "latin1" and (probe == "u" or c["bom"] != "none"):
                continue               # the probe's characters / a byte-order mark are not in Latin-1
            body = MAGIC[c["magic"]] + PROBES[probe]
            if c["bom"] == "inner":
                body += "#c\ufeffd\n"          # inside a trailing comment: only the character itself can be objected to
            codec, sig = ENC[c["enc"]]
            opts = {"prefer_cif2": c["prefer"], "force": c["force"]}
            if c["named"] != "none":
                opts["enc"] = ICU_NAME[c["named"]]
            # is the text decoded with its real encoding ?  ASCII-only probes read the same in utf8 and latin1
            right = exp["right"] or (probe == "x" and c["bom"] == "none" and {exp["selected"], c["enc"]} <= {"utf8", "latin1"})
            # the line terminator convention (also of the line that carries the version comment) is no input of the decision
            for eol in ("\n", "\r\n", "\r"):
                data = (sig if c["bom"] == "start" and c["enc"] != "latin1" else b"") + body.replace("\n", eol).encode(codec)
                jobs.append((ci, probe, data, opts, right))

    def run_chunk(ch):
        cmds = []
        for ci, probe, data, opts, right in ch:
            cmds += [{"op": "parse", "cif": "c", "hex": data.hex(), "opts": opts, "errors": "accept"}, {"op": "project", "cif": "c"}, {"op": "reset"}]
        return ch, run_cifrun(binary, cmds, timeout=600)
    from check_doc import observed_content
    nok = nskip = 0
    by_content = {}
    for ch, rr in pmap(run_chunk, [jobs[i:i + 300] for i in range(0, len(jobs), 300)]):
        if rr.crashed:
            rep.violation("abnormal termination " + sanitizer_signature(rr.stderr), "parse crashed in a chunk of cells", {"stderr": rr.stderr[:3000]})
        for k, (ci, probe, data, opts, right) in enumerate(ch):
            o = rr.outs[3 * k:3 * k + 3]
            if len(o) < 3:
                continue
            c, exp = cells[ci]["c"], cells[ci]["o"]
            if not right:
                nskip += 1          # decoded with another encoding than the real one: outcome not specified (must only terminate)
                continue
            errs = [e["code"] for e in o[0].get("log", []) if e.get("cb") == "error"]
            got = observed_content(o[1]["state"]).get("p", {}).get("items") if "state" in o[1] else None
            want = expected_items(exp["version"], probe)
            problems = []
            # the dialect-sensitive readings tell which version was used
            if got is None or {k2: got.get(k2) for k2 in ("_f",)} != {k2: want[k2] for k2 in ("_f",)}:
                problems.append("text field read as %s: CIF %s rules expected (%s)" % (json.dumps((got or {}).get("_f"))[:80], exp["version"], json.dumps(want["_f"])[:60]))
            if probe == "x" and got is not None and got.get("_l") != want["_l"]:
                problems.append("bracketed value read as %s, CIF %s rules expected" % (json.dumps(got.get("_l"))[:80], exp["version"]))
            if probe == "u" and got is not None and got.get("_u") != want["_u"]:
                problems.append("non-ASCII value read as %s with selected encoding %s" % (json.dumps(got.get("_u"))[:80], exp["selected"]))
            if exp["wrongenc"] != (110 in errs):
                problems.append("CIF_WRONG_ENCODING %s, expected %s" % ("reported" if 110 in errs else "not reported", exp["wrongenc"]))
            if exp["bomerr"] and 104 not in errs:
                problems.append("byte-order mark after the first character not diagnosed in CIF 2.0")
            allowed = set()
            if exp["wrongenc"]: allowed.add(110)
            if exp["bomerr"] or (c["bom"] != "none" and exp["version"] == 1): allowed.add(104)
            if exp["version"] == 1 and probe == "u": allowed.add(104)
            if exp["version"] == 1 and probe == "x": allowed |= {134}          # 'b]' after '[a' is a stray value in CIF 1.1
            if c["magic"] == "late" or True: pass
            extra = [e for e in errs if e not in allowed]
            if extra:
                problems.append("unexpected diagnostics %s" % extra[:4])
            if problems:
                rep.violation("%s [version %s, selected %s]" % (re.sub(r"\[.*", "", problems[0])[:70], exp["version"], exp["selected"]),
                              "cell magic=%s bom=%s prefer=%s enc=%s named=%s force=%s: %s" % (c["magic"], c["bom"], c["prefer"], c["enc"], c["named"], c["force"], "; ".join(problems)),
                              {"cell": c, "table": exp, "hex": data.hex(), "opts": opts})
            else:
                nok += 1
                if got is not None:
                    by_content.setdefault((c["magic"], c["prefer"], probe, exp["version"]), set()).add(json.dumps(got, sort_keys=True))
    # the same text in every signature-recognised encoding yields the same content
    for key, contents in by_content.items():
        if len(contents) > 1:
            rep.violation("content differs across encodings for %s" % (key,), "different contents for the same text: %s" % list(contents)[:2], {"key": key})
    rep.samples = [{"cell": cells[i]["c"], "table_says": cells[i]["o"]} for i in (0, len(cells) // 2, len(cells) - 1)]
    log("[C11] cells %d probe parses %d ok %d not-specified %d" % (len(cells), len(jobs), nok, nskip))
    return rep.finish({"states": int(m.group(2)), "transitions": int(m.group(1)), "traces_validated_against_impl": nok, "cells": len(cells), "probe_parses": len(jobs),
                       "cells_with_unspecified_outcome": nskip, "exhaustive": True,
                       "explanation": "every combination of version comment, byte-order mark, prefer_cif2, real encoding, named default encoding and force_default_encoding; two probe documents per cell; cells whose bytes are decoded with a different encoding than their real one are only required to terminate"},
                      ["the system default encoding of this sandbox (C.utf8 locale, ICU default converter) is UTF-8"])
