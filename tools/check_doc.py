"""C01 (and the shared document machinery for C12 / C08 / C03): CifDoc.tla generates documents with their denotation;
each is parsed by the real library and the stored content compared with the denotation."""
import json, os, collections, random
from vlib import *

SPECIAL = {"\n": "<EOL>", "\t": "<TAB>", "é": "<U2>", "€": "<U3>", "𝄞": "<U4>"}
RSPECIAL = {v: k for k, v in SPECIAL.items()}

# value palette: chosen for lexical significance
PALETTE = {
    "word": "abc", "empty": "", "unk": "?", "na": ".", "num": "1.5(2)", "neg": "-3e2", "sp": "a b", "tab": "a\tb",
    "apos": "it's", "aposend": "its'", "quot": 'say "hi"', "both": "a'b\"c", "tq1": "x'''y", "tq2": 'x"""y', "tq12": "a'''b\"\"\"c",
    "data": "data_x", "dataonly": "data_", "loop": "loop_", "save": "save_a", "saveonly": "save_", "stop": "stop_", "global": "global_",
    "GLOBAL": "GLOBAL_", "under": "_name", "hash": "#h", "dollar": "$d", "obr": "[x", "br": "a[1]", "brace": "a{b}", "cbr": "]",
    "semi": ";semi", "semimid": "a;b", "colon": "a:b", "colonend": "k:", "bsl": "a\\b", "bslend": "ab\\", "bslonly": "\\",
    "ml": "line1\nline2", "mlsemi": "x\n;y", "mlblank": "a\n\nb", "mltrail": "ab  \ncd ", "mlfirstbsl": "ab\\\ncd", "mlq": "a'\n\"b",
    "lead": " lead", "trail": "trail ", "nl": "\n", "nlend": "abc\n", "nlstart": "\nabc",
    "u2": "é", "u3": "€x", "u4": "𝄞", "u4q": "'𝄞'", "long": "x" * 60,
    "quotsp": "a' b", "quotend1": "a' ", "dq1": "a\" b",
}


def to_chars(s):
    return [SPECIAL.get(c, c) for c in s]


def from_chars(cs):
    return "".join(RSPECIAL.get(c, c) for c in cs)


def tla_char(c):
    return '"%s"' % c.replace("\\", "\\\\").replace('"', '\\"')


def tla_seq(cs):
    return "<<" + ", ".join(tla_char(c) for c in cs) + ">>"


def palette_tla(ids):
    return "[" + ", ".join("%s |-> %s" % (i, tla_seq(to_chars(PALETTE[i]))) for i in ids) + "]"


EOLS = {"lf": "\n", "crlf": "\r\n", "cr": "\r"}


def render(chars, eol="lf", mixed_rnd=None):
    out = []
    for c in chars:
        if c == "<EOL>":
            out.append(EOLS[mixed_rnd.choice(["lf", "crlf", "cr"])] if mixed_rnd else EOLS[eol])
        else:
            out.append(RSPECIAL.get(c, c))
    return "".join(out)


def val_expected(v):
    k = v["k"]
    if k == "char":
        return {"k": "char", "t": from_chars(v["t"]), "q": v["q"]}
    if k in ("unk", "na"):
        return {"k": k}
    if k == "list":
        return {"k": "list", "e": [val_expected(x) for x in v["e"]]}
    if k == "table":
        return {"k": "table", "e": sorted([[from_chars(x[0]), val_expected(x[1])] for x in v["e"]], key=lambda e: e[0])}
    return {"k": "?"}


def val_observed(v):
    k = v.get("k")
    if k in ("char", "numb"):
        return {"k": k, "t": v.get("t"), "q": v.get("q", 0)}
    if k == "list":
        return {"k": "list", "e": [val_observed(x) for x in v.get("e", [])]}
    if k == "table":
        return {"k": "table", "e": sorted([[x[0], val_observed(x[1])] for x in v.get("e", [])], key=lambda e: e[0])}
    return {"k": k}


def expected_content(d):
    """denotation -> canonical content {block: {"items": {name: val}, "loops": [...], "frames": {...}}}"""
    def items(lst):
        return {from_chars(i["name"]): val_expected(i["v"]) for i in lst}
    if d["shape"] == "items":
        return {"b": {"items": items(d["items"]), "loops": [], "frames": {}}}
    if d["shape"] == "frameitems":
        return {"b": {"items": {}, "loops": [], "frames": {"f": {"items": items(d["items"]), "loops": [], "frames": {}}}}}
    if d["shape"] == "loop":
        names = [from_chars(n) for n in d["names"]]
        pk = [dict(zip(names, [val_expected(v) for v in p])) for p in d["packets"]]
        return {"b": {"items": {}, "loops": [{"names": sorted(names), "packets": sorted(json.dumps(p, sort_keys=True) for p in pk)}], "frames": {}}}
    raise Infra("unknown shape " + d["shape"])


def observed_content(state):
    def cont(c):
        res = {"items": {}, "loops": [], "frames": {f["code"]: cont(f) for f in c["frames"]}}
        for l in c["loops"]:
            names = {i[0]: i[1] for i in l["items"]}
            rows = collections.defaultdict(dict)
            for r, n, v in l["rows"]:
                rows[r][names.get(n, n)] = val_observed(v)
            if l["cat"] == "":
                if len(rows) > 1:
                    res["items"]["?multirow"] = len(rows)
                for r in rows.values():
                    res["items"].update(r)
                for n in names.values():
                    res["items"].setdefault(n, {"k": "MISSING"})
            else:
                pk = []
                for r in sorted(rows):
                    p = {n: rows[r].get(n, {"k": "unk"}) for n in names.values()}
                    pk.append(json.dumps(p, sort_keys=True))
                res["loops"].append({"names": sorted(names.values()), "packets": sorted(pk)})
        res["loops"].sort(key=lambda l: l["names"])
        return res
    return {b["code"]: cont(b) for b in state["blocks"]}


def gen_cfg(dialect, vids, pres, seps, ctxs, tails, nslots):
    q = lambda xs: "{" + ", ".join('"%s"' % x for x in xs) + "}"
    return ("SPECIFICATION Spec\nCONSTANTS\n Dialect = %d\n Palette <- MCPalette\n VIDS = %s\n PRES = %s\n SEPS = %s\n CONTEXTS = %s\n TAILS = %s\n NSlots = %d\n"
            "INVARIANT GenInvariant\nINVARIANT EmitDoc\nCHECK_DEADLOCK FALSE\n") % (dialect, q(vids), q(pres), q(seps), q(ctxs), q(tails), nslots)


def run_doc_tlc(tag, dialect, vids, pres, seps, ctxs, tails, nslots, module="CifDoc", extra_defs="", cfg_extra="", timeout=2400):
    wd = scratch_dir("doc-" + tag)
    with open(os.path.join(wd, "MCDoc.tla"), "w") as f:
        f.write("---- MODULE MCDoc ----\nEXTENDS %s\nMCPalette == %s\n%s\n====\n" % (module, palette_tla(sorted(PALETTE)), extra_defs))
    for m in ("CifDoc.tla", "CifDefect.tla"):
        if os.path.exists(os.path.join(SPEC, m)):
            shutil.copy(os.path.join(SPEC, m), wd)
    cfgp = os.path.join(wd, "MCDoc.cfg")
    open(cfgp, "w").write(gen_cfg(dialect, vids, pres, seps, ctxs, tails, nslots) + cfg_extra)
    out = os.path.join(wd, "tlc.out")
    t0 = time.time()
    with open(out, "w") as fo:
        try:
            rc = subprocess.run(["tlc", "-workers", str(NCPU), "-metadir", os.path.join(wd, "meta"), "-config", cfgp, os.path.join(wd, "MCDoc.tla")],
                                stdout=fo, stderr=subprocess.STDOUT, cwd=wd, timeout=timeout).returncode
        except subprocess.TimeoutExpired:
            rc = -9
    tail = subprocess.run(["tail", "-c", "6000", out], capture_output=True, text=True).stdout
    st = {"rc": rc, "wall_s": round(time.time() - t0, 1), "generated": 0, "distinct": 0, "ok": "No error has been found" in tail}
    m = re.search(r"(\d+) states generated, (\d+) distinct states found", tail)
    if m:
        st["generated"], st["distinct"] = int(m.group(1)), int(m.group(2))
    if not st["ok"]:
        i = tail.find("Error:")
        st["error"] = tail[i:i + 2500]
    return out, st, wd


ALLPRES = ["bare", "sq", "dq", "tsq", "tdq", "text", "textf", "textp", "textpf"]
ALLSEPS = ["sp", "tab", "eol", "spsp", "eolsp", "speol", "eoleol", "cmt", "cmteol", "none"]
CTX2 = ["scalars", "frame", "loop1", "list", "table", "listinlist"]
CTX1 = ["scalars", "frame", "loop1"]
TAILS = ["eof", "eol", "sp", "cmt", "cmteol"]
CIF1_VIDS = [v for v, t in PALETTE.items() if all(ord(c) < 127 for c in t)]


def parse_docs(binary, docs, opts=None, chunk=400):
    """docs: list of (text, key); returns list of (key, parse_out, project_out, leak)"""
    def run_chunk(ch):
        cmds = []
        for text, key in ch:
            c = {"op": "parse", "cif": "c", "text": text, "errors": "accept"}
            if opts:
                c["opts"] = opts
            cmds += [c, {"op": "project", "cif": "c"}, {"op": "reset"}]
        return ch, run_cifrun(binary, cmds, timeout=900)
    res = []
    for ch, rr in pmap(run_chunk, [docs[i:i + chunk] for i in range(0, len(docs), chunk)]):
        for k, (text, key) in enumerate(ch):
            o = rr.outs[3 * k:3 * k + 3]
            if len(o) < 3:
                res.append((key, None, None, rr.stderr if k * 3 >= len(rr.outs) - 2 else ""))
            else:
                res.append((key, o[0], o[1], o[2].get("leak")))
    return res


def c01(tier, replay=None):
    rep = Report("C01", tier, "model_checking")
    binary = build("asan")
    rnd = random.Random(SEED)
    allv = sorted(PALETTE)
    if tier == "quick":
        plans = [("cif2-single", 2, allv, ALLPRES, ALLSEPS, CTX2, ["eof", "eol"], 1),
                 ("cif2-pairs", 2, ["word", "unk", "apos", "semi", "ml", "mlsemi", "bslend", "u4", "empty", "colonend", "num"], ALLPRES, ["sp", "eol", "cmt", "none"], ["scalars", "loop1", "list", "table"], ["eof"], 2),
                 ("cif1-single", 1, CIF1_VIDS, ["bare", "sq", "dq", "text"], ALLSEPS[:-1], CTX1, ["eof", "eol", "cmt"], 1)]
    else:
        plans = [("cif2-single", 2, allv, ALLPRES, ALLSEPS, CTX2, TAILS, 1),
                 ("cif2-pairs", 2, allv, ALLPRES, ["sp", "eol", "cmt", "none"], ["scalars", "loop1", "list", "table"], ["eof"], 2),
                 ("cif2-triples", 2, ["word", "unk", "apos", "semi", "ml", "bslend", "u4", "empty"], ["bare", "sq", "tdq", "text", "textpf"], ["sp", "eol", "none"], ["loop1", "list", "table"], ["eof", "cmt"], 3),
                 ("cif1-single", 1, CIF1_VIDS, ["bare", "sq", "dq", "text"], ALLSEPS[:-1], CTX1, TAILS, 1),
                 ("cif1-pairs", 1, CIF1_VIDS, ["bare", "sq", "dq", "text"], ["sp", "eol", "cmt"], CTX1, ["eof"], 2)]
    covs = []
    tstates = ttrans = total = total_ok = 0
    for name, dialect, vids, pres, seps, ctxs, tails, ns in plans:
        out, st, wd = run_doc_tlc(name, dialect, vids, pres, seps, ctxs, tails, ns)
        if not st["ok"]:
            cleanup(wd)
            raise Infra("TLC failed on CifDoc %s: %s" % (name, st.get("error", "")[:1500]))
        tstates += st["distinct"]; ttrans += st["generated"]
        docs = []
        for tag, o in iter_tlc_json(out, ("DOC",)):
            docs.append(o)
        cleanup(wd)
        if tier == "quick" and len(docs) > 6000:
            rnd.shuffle(docs)
            docs = docs[:6000]
        # terminator style per document: LF mostly; the other styles are C08's subject but a share is exercised here
        jobs = []
        for i, o in enumerate(docs):
            style = ("lf", "lf", "crlf", "cr")[i % 4]
            jobs.append((render(o["d"]["doc"], style), i))
        nok = 0
        for key, po, pr, leak in parse_docs(binary, jobs):
            o = docs[key]
            label = "%s %s" % (o["ctx"], "+".join("%s/%s/%s" % (s["v"], s["p"], s["s"]) for s in o["slots"]))
            if po is None:
                rep.violation("parse abnormal termination: " + sanitizer_signature(leak or ""), "cif_parse did not return on %s" % label, {"text": jobs[key][0], "stderr": (leak or "")[-1500:]})
                continue
            exp = expected_content(o["d"])
            problems = []
            if po.get("rc") != 0:
                problems.append("rc %s" % po.get("rc"))
            errs = [e for e in po.get("log", []) if e.get("cb") == "error"]
            if errs:
                problems.append("error callback: code %s line %s" % (errs[0]["code"], errs[0]["line"]))
            got = observed_content(pr["state"]) if pr and "state" in pr else None
            if got != exp:
                problems.append("content %s, denoted %s" % (json.dumps(got, ensure_ascii=True)[:300], json.dumps(exp, ensure_ascii=True)[:300]))
            if leak:
                problems.append("memory leaked (LeakSanitizer)")
            if "env_after" in po:
                problems.append("environment changed: %s -> %s" % (po.get("env_before"), po["env_after"]))
            if problems:
                s0 = o["slots"][-1] if problems and len(o["slots"]) else {}
                sig = "dialect %d %s %s: %s" % (dialect, o["ctx"], "/".join("%s:%s" % (s["p"], s["v"]) for s in o["slots"]), re.sub(r"[0-9]+", "N", problems[0])[:50])
                rep.violation(sig, "%s: %s" % (label, "; ".join(problems)), {"text": jobs[key][0], "denotation": exp, "slots": o["slots"], "tail": o["tail"]})
            else:
                nok += 1
        total += len(docs); total_ok += nok
        covs.append({"config": name, "dialect": dialect, "documents": len(docs), "parsed_as_denoted": nok, "tlc": {k: st[k] for k in ("generated", "distinct", "wall_s")}})
        log("[C01 %s] documents %d ok %d tlc %.1fs" % (name, len(docs), nok, st["wall_s"]))
        if not rep.samples and docs:
            o = docs[len(docs) // 3]
            rep.samples.append({"document": render(o["d"]["doc"]), "slots": o["slots"], "denotes": expected_content(o["d"])})
    return rep.finish({"states": max(tstates, 1), "transitions": max(ttrans, 1), "traces_validated_against_impl": total_ok,
                       "documents": total, "configs": covs, "palette_values": len(PALETTE), "exhaustive": tier != "quick",
                       "explanation": "every value of the palette x every admissible presentation x every separator x every context (single slots), and every ordered pair of adjacent value tokens in the pair configurations"},
                      ["the renderer only encodes characters and picks the terminator style; the concrete syntax is produced by CifDoc.tla"])
