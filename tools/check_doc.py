"""C01 (and the shared document machinery for C12 / C08 / C03): CifDoc.tla generates documents with their denotation;
each is parsed by the real library and the stored content compared with the denotation."""
import json, os, collections, random
from vlib import *

SPECIAL = {"\n": "<EOL>", "\t": "<TAB>", "é": "<U2>", "€": "<U3>", "𝄞": "<U4>", "\x01": "<C1>", "\x7f": "<DEL>"}
RSPECIAL = {v: k for k, v in SPECIAL.items()}

# value palette: chosen for lexical significance
PALETTE = {
    "word": "abc", "empty": "", "unk": "?", "na": ".", "num": "1.5(2)", "neg": "-3e2", "sp": "a b", "tab": "a\tb",
    "apos": "it's", "aposend": "its'", "quot": 'say "hi"', "both": "a'b\"c", "tq1": "x'''y", "tq2": 'x"""y', "tq12": "a'''b\"\"\"c",
    "data": "data_x", "dataonly": "data_", "loop": "loop_", "save": "save_a", "saveonly": "save_", "stop": "stop_", "global": "global_",
    "GLOBAL": "GLOBAL_", "under": "_name", "hash": "#h", "dollar": "$d", "obr": "[x", "br": "a[1]", "brace": "a{b}", "cbr": "]",
    "semi": ";semi", "semimid": "a;b", "colon": "a:b", "colonend": "k:", "bsl": "a\\b", "bslend": "ab\\", "bslonly": "\\",
    "ml": "line1\nline2", "mlsemi": "x\n;y", "mlblank": "a\n\nb", "mltrail": "ab  \ncd ", "mlfirstbsl": "ab\\\ncd", "mlq": "a'\n\"b",
    "lead": " lead", "trail": "trail ", "nl": "\n", "nlend": "abc\n", "nlstart": "\nabc",
    "u2": "é", "u3": "€x", "u4": "𝄞", "u4q": "'𝄞'", "long": "x" * 60,
    "quotsp": "a' b", "quotend1": "a' ", "dq1": "a\" b",
    # delimiter characters on both sides of a line terminator (inside triple-quoted strings the runs must not be added up)
    "mlqq": 'ab""\n"cd', "mlaa": "x'\n''y", "mlq1": 'a"\n"b', "mla1": "a'\n'b",
    # look-alikes of the reserved words that are ordinary values (only data_* / save_* are reserved as prefixes)
    # strings that begin (or consist of) doubled delimiter characters: in CIF 1.1 'q2' stands as '''x''' - which is not a
    # triple-quoted string there
    "q2": "''x''", "dq2": '""y', "qq": "''", "q2sp": "''x y",
    # supplementary characters whose trail surrogate looks like that of a noncharacter (DFFE / DFFF) although their lead
    # surrogate says otherwise; and the last characters before the noncharacters of their planes
    "u4e": "a\U0001f3ffz\U000103fe", "u4l": "\U0001fffd\U0010fffd",
    "stopx": "stop_codon", "STOPx": "STOP_1", "loopx": "loop_x", "globalx": "global_x", "qmark": "?abc", "dotx": ".5a",
}


def to_chars(s):
    return [SPECIAL.get(c, c) for c in s]


def from_chars(cs):
    return "".join(RSPECIAL.get(c, c) for c in cs)


def tla_char(c):
    return '"%s"' % c.replace("\\", "\\\\").replace('"', '\\"')


def tla_seq(cs):
    return "<<" + ", ".join(tla_char(c) for c in cs) + ">>"


def palette_tla(ids):
    return "[" + ", ".join("%s |-> %s" % (i, tla_seq(to_chars(PALETTE[i]))) for i in ids) + "]"


EOLS = {"lf": "\n", "crlf": "\r\n", "cr": "\r"}


def render(chars, eol="lf", mixed_rnd=None):
    out = []
    for c in chars:
        if c == "<EOL>":
            if mixed_rnd:
                # two adjacent terminators must stay two: a bare CR directly followed by one that starts with LF would read as ONE CR LF
                t = EOLS[mixed_rnd.choice(["lf", "crlf", "cr"])]
                if out and out[-1] == "\r" and t.startswith("\n"):
                    t = EOLS[mixed_rnd.choice(["crlf", "cr"])]
                out.append(t)
            else:
                out.append(EOLS[eol])
        else:
            out.append(RSPECIAL.get(c, c))
    return "".join(out)


def val_expected(v):
    k = v["k"]
    if k == "char":
        return {"k": "char", "t": from_chars(v["t"]), "q": v["q"]}
    if k in ("unk", "na"):
        return {"k": k}
    if k == "list":
        return {"k": "list", "e": [val_expected(x) for x in v["e"]]}
    if k == "table":
        return {"k": "table", "e": sorted([[from_chars(x[0]), val_expected(x[1])] for x in v["e"]], key=lambda e: e[0])}
    return {"k": "?"}


def val_observed(v):
    k = v.get("k")
    if k in ("char", "numb"):
        return {"k": k, "t": v.get("t"), "q": v.get("q", 0)}
    if k == "list":
        return {"k": "list", "e": [val_observed(x) for x in v.get("e", [])]}
    if k == "table":
        return {"k": "table", "e": sorted([[x[0], val_observed(x[1])] for x in v.get("e", [])], key=lambda e: e[0])}
    return {"k": k}


def expected_content(d):
    """denotation -> canonical content {block: {"items": {name: val}, "loops": [...], "frames": {...}}}"""
    def items(lst):
        return {from_chars(i["name"]): val_expected(i["v"]) for i in lst}
    if d["shape"] == "items":
        return {"b": {"items": items(d["items"]), "loops": [], "frames": {}}}
    if d["shape"] == "frameitems":
        return {"b": {"items": {}, "loops": [], "frames": {"f": {"items": items(d["items"]), "loops": [], "frames": {}}}}}
    if d["shape"] == "loop":
        names = [from_chars(n) for n in d["names"]]
        pk = [dict(zip(names, [val_expected(v) for v in p])) for p in d["packets"]]
        return {"b": {"items": {}, "loops": [{"names": sorted(names), "packets": sorted(json.dumps(p, sort_keys=True) for p in pk)}], "frames": {}}}
    if d["shape"] == "tree":
        def cont(c):
            return {"items": items(c.get("items", [])),
                    "loops": sorted(({"names": sorted(from_chars(n) for n in l["names"]),
                                      "packets": sorted(json.dumps(dict(zip([from_chars(n) for n in l["names"]], [val_expected(v) for v in p])), sort_keys=True) for p in l["packets"])}
                                     for l in c.get("loops", [])), key=lambda l: l["names"]),
                    "frames": {from_chars(f["code"]): cont(f) for f in c.get("frames", [])}}
        return {from_chars(b["code"]): cont(b) for b in d["blocks"]}
    raise Infra("unknown shape " + d["shape"])


def observed_content(state):
    def cont(c):
        res = {"items": {}, "loops": [], "frames": {f["code"]: cont(f) for f in c["frames"]}}
        for l in c["loops"]:
            names = {i[0]: i[1] for i in l["items"]}
            rows = collections.defaultdict(dict)
            for r, n, v in l["rows"]:
                rows[r][names.get(n, n)] = val_observed(v)
            if l["cat"] == "":
                if len(rows) > 1:
                    res["items"]["?multirow"] = len(rows)
                for r in rows.values():
                    res["items"].update(r)
                for n in names.values():
                    res["items"].setdefault(n, {"k": "MISSING"})
            else:
                pk = []
                for r in sorted(rows):
                    p = {n: rows[r].get(n, {"k": "unk"}) for n in names.values()}
                    pk.append(json.dumps(p, sort_keys=True))
                res["loops"].append({"names": sorted(names.values()), "packets": sorted(pk)})
        res["loops"].sort(key=lambda l: l["names"])
        return res
    return {b["code"]: cont(b) for b in state["blocks"]}


def gen_cfg(dialect, vids, pres, seps, ctxs, tails, nslots):
    q = lambda xs: "{" + ", ".join('"%s"' % x for x in xs) + "}"
    return ("SPECIFICATION Spec\nCONSTANTS\n Dialect = %d\n Palette <- MCPalette\n VIDS = %s\n PRES = %s\n SEPS = %s\n CONTEXTS = %s\n TAILS = %s\n NSlots = %d\n"
            "INVARIANT GenInvariant\nINVARIANT EmitDoc\nCHECK_DEADLOCK FALSE\n") % (dialect, q(vids), q(pres), q(seps), q(ctxs), q(tails), nslots)


def run_doc_tlc(tag, dialect, vids, pres, seps, ctxs, tails, nslots, module="CifDoc", extra_defs="", cfg_extra="", timeout=2400):
    wd = scratch_dir("doc-" + tag)
    with open(os.path.join(wd, "MCDoc.tla"), "w") as f:
        f.write("---- MODULE MCDoc ----\nEXTENDS %s\nMCPalette == %s\n%s\n====\n" % (module, palette_tla(sorted(PALETTE)), extra_defs))
    for m in ("CifDoc.tla", "CifDefect.tla"):
        if os.path.exists(os.path.join(SPEC, m)):
            shutil.copy(os.path.join(SPEC, m), wd)
    cfgp = os.path.join(wd, "MCDoc.cfg")
    open(cfgp, "w").write(gen_cfg(dialect, vids, pres, seps, ctxs, tails, nslots) + cfg_extra)
    out = os.path.join(wd, "tlc.out")
    t0 = time.time()
    with open(out, "w") as fo:
        try:
            rc = subprocess.run(["tlc", "-workers", str(NCPU), "-metadir", os.path.join(wd, "meta"), "-config", cfgp, os.path.join(wd, "MCDoc.tla")],
                                stdout=fo, stderr=subprocess.STDOUT, cwd=wd, timeout=timeout).returncode
        except subprocess.TimeoutExpired:
            rc = -9
    tail = subprocess.run(["tail", "-c", "6000", out], capture_output=True, text=True).stdout
    st = {"rc": rc, "wall_s": round(time.time() - t0, 1), "generated": 0, "distinct": 0, "ok": "No error has been found" in tail}
    m = re.search(r"(\d+) states generated, (\d+) distinct states found", tail)
    if m:
        st["generated"], st["distinct"] = int(m.group(1)), int(m.group(2))
    if not st["ok"]:
        i = tail.find("Error:")
        st["error"] = tail[i:i + 2500]
    return out, st, wd


ALLPRES = ["bare", "sq", "dq", "tsq", "tdq", "text", "textf", "textp", "textpf"]
ALLSEPS = ["sp", "tab", "eol", "spsp", "eolsp", "speol", "eoleol", "cmt", "cmteol", "none"]
CTX2 = ["scalars", "frame", "loop1", "list", "table", "listinlist"]
CTX1 = ["scalars", "frame", "loop1"]
TAILS = ["eof", "eol", "sp", "cmt", "cmteol"]
CIF1_VIDS = [v for v, t in PALETTE.items() if all(ord(c) < 127 for c in t)]


def parse_docs(binary, docs, opts=None, chunk=400, syntax=False):
    """docs: list of (text, key); returns list of (key, parse_out, project_out, leak)"""
    def run_chunk(ch):
        cmds = []
        for text, key in ch:
            c = {"op": "parse", "cif": "c", "text": text, "errors": "accept"}
            if syntax:
                c["syntax"] = 1        # data-name / keyword callbacks are logged with their line and column
            if opts:
                c["opts"] = opts
            cmds += [c, {"op": "project", "cif": "c"}, {"op": "reset"}]
        return ch, run_cifrun(binary, cmds, timeout=900)
    res = []
    for ch, rr in pmap(run_chunk, [docs[i:i + chunk] for i in range(0, len(docs), chunk)]):
        for k, (text, key) in enumerate(ch):
            o = rr.outs[3 * k:3 * k + 3]
            if len(o) < 3:
                res.append((key, None, None, rr.stderr if k * 3 >= len(rr.outs) - 2 else ""))
            else:
                res.append((key, o[0], o[1], o[2].get("leak")))
    return res


def c01(tier, replay=None):
    rep = Report("C01", tier, "model_checking")
    binary = build("asan")
    rnd = random.Random(SEED)
    allv = sorted(PALETTE)
    if tier == "quick":
        plans = [("cif2-single", 2, allv, ALLPRES, ALLSEPS, CTX2, ["eof", "eol"], 1),
                 ("cif2-pairs", 2, ["word", "unk", "apos", "semi", "ml", "mlsemi", "bslend", "u4", "empty", "colonend", "num"], ALLPRES, ["sp", "eol", "cmt", "none"], ["scalars", "loop1", "list", "table", "looptable", "looplist"], ["eof"], 2),
                 ("cif1-single", 1, CIF1_VIDS, ["bare", "sq", "dq", "text"], ALLSEPS[:-1], CTX1, ["eof", "eol", "cmt"], 1)]
    else:
        plans = [("cif2-single", 2, allv, ALLPRES, ALLSEPS, CTX2, TAILS, 1),
                 ("cif2-pairs", 2, ["word", "unk", "apos", "semi", "ml", "mlsemi", "bslend", "u4", "empty", "colonend", "num", "mlqq", "mlaa", "tq12", "nlend", "both"], ALLPRES, ["sp", "eol", "cmt", "none"], ["scalars", "loop1", "list", "table", "looptable", "looplist"], ["eof"], 2),
                 ("cif2-triples", 2, ["word", "apos", "semi", "ml", "empty"], ["bare", "sq", "tdq", "text"], ["sp", "eol"], ["loop1", "list"], ["eof"], 3),
                 ("cif1-single", 1, CIF1_VIDS, ["bare", "sq", "dq", "text"], ALLSEPS[:-1], CTX1, TAILS, 1),
                 ("cif1-pairs", 1, [v for v in ("word", "unk", "apos", "semi", "ml", "mlsemi", "bslend", "empty", "num", "quot", "both", "data", "hash", "dollar", "obr", "under", "nlend", "lead", "trail", "mlq1") if v in CIF1_VIDS], ["bare", "sq", "dq", "text"], ["sp", "eol", "cmt"], CTX1, ["eof"], 2)]
    covs = []
    tstates = ttrans = total = total_ok = 0
    for name, dialect, vids, pres, seps, ctxs, tails, ns in plans:
        out, st, wd = run_doc_tlc(name, dialect, vids, pres, seps, ctxs, tails, ns)
        if not st["ok"]:
            cleanup(wd)
            raise Infra("TLC failed on CifDoc %s: %s" % (name, st.get("error", "")[:1500]))
        tstates += st["distinct"]; ttrans += st["generated"]
        docs = []
        for tag, o in iter_tlc_json(out, ("DOC",)):
            docs.append(o)
        cleanup(wd)
        cap = 6000 if tier == "quick" else 40000
        if len(docs) > cap:
            rnd.shuffle(docs)
            docs = docs[:cap]
        # terminator style per document: LF mostly; the other styles are C08's subject but a share is exercised here
        jobs = []
        for i, o in enumerate(docs):
            style = ("lf", "lf", "crlf", "cr")[i % 4]
            jobs.append((render(o["d"]["doc"], style), i))
        nok = 0
        for key, po, pr, leak in parse_docs(binary, jobs):
            o = docs[key]
            label = "%s %s" % (o["ctx"], "+".join("%s/%s/%s" % (s["v"], s["p"], s["s"]) for s in o["slots"]))
            if po is None:
                rep.violation("parse abnormal termination: " + sanitizer_signature(leak or ""), "cif_parse did not return on %s" % label, {"text": jobs[key][0], "stderr": (leak or "")[-1500:]})
                continue
            exp = expected_content(o["d"])
            problems = []
            if po.get("rc") != 0:
                problems.append("rc %s" % po.get("rc"))
            errs = [e for e in po.get("log", []) if e.get("cb") == "error"]
            if errs:
                problems.append("error callback: code %s line %s" % (errs[0]["code"], errs[0]["line"]))
            got = observed_content(pr["state"]) if pr and "state" in pr else None
            if got != exp:
                problems.append("content %s, denoted %s" % (json.dumps(got, ensure_ascii=True)[:300], json.dumps(exp, ensure_ascii=True)[:300]))
            if leak:
                problems.append("memory leaked (LeakSanitizer)")
            if "env_after" in po:
                problems.append("environment changed: %s -> %s" % (po.get("env_before"), po["env_after"]))
            if problems:
                s0 = o["slots"][-1] if problems and len(o["slots"]) else {}
                sig = "dialect %d %s %s: %s" % (dialect, o["ctx"], "/".join("%s:%s" % (s["p"], s["v"]) for s in o["slots"]), re.sub(r"[0-9]+", "N", problems[0])[:50])
                rep.violation(sig, "%s: %s" % (label, "; ".join(problems)), {"text": jobs[key][0], "denotation": exp, "slots": o["slots"], "tail": o["tail"]})
            else:
                nok += 1
        total += len(docs); total_ok += nok
        covs.append({"config": name, "dialect": dialect, "documents": len(docs), "parsed_as_denoted": nok, "tlc": {k: st[k] for k in ("generated", "distinct", "wall_s")}})
        log("[C01 %s] documents %d ok %d tlc %.1fs" % (name, len(docs), nok, st["wall_s"]))
        if not rep.samples and docs:
            o = docs[len(docs) // 3]
            rep.samples.append({"document": render(o["d"]["doc"]), "slots": o["slots"], "denotes": expected_content(o["d"])})
    # size classes beyond the generator's bounds: long tokens (text field, triple-quoted string, many-packet loop, long list)
    # placed after other items, so that they cross the 4096-byte reads and the 131200-unit scan buffer at an offset
    big = []
    for n in ((6399, 131199, 150015) if tier == "quick" else (6399, 65000, 129279, 131199, 131201, 150015, 268799)):
        body = "\n".join(("L%07d:" % i + "jklmnopqrstuvwxyzABCDEFGHIJKLMNOPQRSTUVWXYZ0123456789abcdefgh")[:63] for i in range((n + 1) // 64))[:n]
        for dialect, magic in ((2, "#\\#CIF_2.0\n"), (1, "#\\#CIF_1.1\n")):
            doc = magic + "data_b\n_before 'first value'\n_big\n;" + body + "\n;\n_after 'last value'\n"
            exp = {"b": {"items": {"_before": {"k": "char", "t": "first value", "q": 1}, "_big": {"k": "char", "t": body, "q": 1}, "_after": {"k": "char", "t": "last value", "q": 1}}, "loops": [], "frames": {}}}
            big.append(("text field of %d characters, CIF %d" % (n, dialect), doc, exp))
        tq = body.replace("'", "x")
        big.append(("triple-quoted string of %d characters" % n, "#\\#CIF_2.0\ndata_b\n_before 'first value'\n_big \'\'\'" + tq + "\'\'\'\n_after 'last value'\n",
                    {"b": {"items": {"_before": {"k": "char", "t": "first value", "q": 1}, "_big": {"k": "char", "t": tq, "q": 1}, "_after": {"k": "char", "t": "last value", "q": 1}}, "loops": [], "frames": {}}}))
    # CR LF documents in which a CR is the last byte of a 4096-byte read and its LF the first of the next, inside a text
    # field, inside a triple-quoted string and just before a text field's closing semicolon: one line terminator each
    def split_pairs(head, opener, bounds):
        """lines whose terminating CR is byte B-1 of the CR LF rendering, for each B of bounds"""
        lines, off = [], len(head.replace("\n", "\r\n")) + len(opener)
        for B in bounds:
            while B - 1 - off > 130:
                lines.append(("l%05d " % len(lines) + "abcdefghijklmnopqrstuvwxyz" * 3)[:60]); off += 62
            ln = B - 1 - off
            if ln < 0:
                raise Infra("split_pairs: boundary %d cannot be reached" % B)
            lines.append(("e%05d " % len(lines) + "abcdefghijklmnopqrstuvwxyz" * 6)[:ln] if ln > 7 else "z" * ln); off += ln + 2
        return lines
    items = lambda v: {"b": {"items": {"_before": {"k": "char", "t": "first value", "q": 1}, "_big": {"k": "char", "t": v, "q": 1}, "_after": {"k": "char", "t": "last value", "q": 1}}, "loops": [], "frames": {}}}
    for dialect, magic in ((2, "#\\#CIF_2.0\n"), (1, "#\\#CIF_1.1\n")):
        head = magic + "data_b\n_before 'first value'\n_big\n"
        for at_closer in (False, True):
            # without the tail line the pair at the last boundary is the terminator in front of the closing semicolon
            value = "\n".join(split_pairs(head, ";", (4096, 8192, 12288)) + ([] if at_closer else ["tail"]))
            doc = (head + ";" + value + "\n;\n_after 'last value'\n").replace("\n", "\r\n")
            if doc[4095:4097] != "\r\n" or doc[12287:12289] != "\r\n":
                raise Infra("split_pairs: pair not on the boundary")
            big.append(("CR LF pairs split across reads in a text field%s, CIF %d" % (", the last one before the closing semicolon" if at_closer else "", dialect), doc, items(value)))
    head = "#\\#CIF_2.0\ndata_b\n_before 'first value'\n_big "
    value = "\n".join(split_pairs(head, "\'\'\'", (4096, 8192, 12288)) + ["tail"])
    big.append(("CR LF pairs split across reads in a triple-quoted string", (head + "\'\'\'" + value + "\'\'\'\n_after 'last value'\n").replace("\n", "\r\n"), items(value)))
    npk = 3000 if tier == "quick" else 40000
    big.append(("loop of %d packets" % npk, "#\\#CIF_2.0\ndata_b\nloop_ _i _v\n" + "".join("%d 'v%d'\n" % (i, i) for i in range(npk)),
                {"b": {"items": {}, "loops": [{"names": ["_i", "_v"], "packets": sorted(json.dumps({"_i": {"k": "char", "t": str(i), "q": 0}, "_v": {"k": "char", "t": "v%d" % i, "q": 1}}, sort_keys=True) for i in range(npk))}], "frames": {}}}))
    nbig = 0
    for (label, doc, exp), (key, po, pr, leak) in zip(big, parse_docs(binary, [(doc, i) for i, (label, doc, exp) in enumerate(big)], chunk=4)):
        label, doc, exp = big[key]
        problems = []
        if po is None:
            problems.append("cif_parse did not return: " + sanitizer_signature(leak or ""))
        else:
            if po.get("rc") != 0 or [e for e in po.get("log", []) if e.get("cb") == "error"]:
                problems.append("rc %s, errors %s" % (po.get("rc"), [e.get("code") for e in po.get("log", []) if e.get("cb") == "error"][:3]))
            got = observed_content(pr["state"]) if pr and "state" in pr else None
            if got != exp:
                gi, ei = (got or {}).get("b", {}).get("items", {}).get("_big", {}).get("t"), exp["b"]["items"].get("_big", {}).get("t")
                at = next((i for i, (a, b) in enumerate(zip(gi or "", ei or "")) if a != b), -1)
                problems.append("content differs from the denotation" + (" (_big: first difference at offset %d, %r for %r)" % (at, (gi or "")[at:at + 20], (ei or "")[at:at + 20]) if ei is not None else ""))
        if problems:
            rep.violation("size class %s: %s" % (re.sub(r"[0-9]+", "N", label), re.sub(r"[0-9]+", "N", problems[0])[:60]), "%s: %s" % (label, "; ".join(problems)), {"label": label, "document_head": doc[:300]})
        else:
            nbig += 1
    total += len(big); total_ok += nbig
    log("[C01 size classes] documents %d ok %d" % (len(big), nbig))
    # line folding in text fields (CIF 2.0; CIF 1.1 with the same protocol): a line is continued exactly when its last
    # backslash is followed by nothing but blanks; a backslash followed by any other character - of whatever lexical class -
    # is content.  The denotation is computed by the rule itself
    def unfold(lines):
        out, cur = [], ""
        for ln in lines:
            m_ = re.search(r"\\[ \t]*$", ln)
            if m_:
                cur += ln[:m_.start()]
            else:
                out.append(cur + ln); cur = ""
        if cur:
            out.append(cur)
        return "\n".join(out)
    tails = ["a", "l", "s", "t", "b", "d", "e", "g", "o", "p", "v", "A", "\"", "'", "#", "$", "_", ";", "[", "]", "{", "}", "q", "x", "1", ":", "\\a", "a b", "n ", "\t", " "]
    fl = []
    for tl in tails:
        # (a fold marker on the very last line has nothing to continue onto; what it means is not settled, and not tried)
        lines = ["Cu K\\" + tl, "radiation", "long \\", "line", ("end\\" + tl) if tl.strip() else "end"]
        for dialect, magic in ((2, "#\\#CIF_2.0\n"), (1, "#\\#CIF_1.1\n")):
            doc = magic + "data_b\n_before 1\n_v\n;\\\n" + "\n".join(lines) + "\n;\n_after 2\n"
            # (CIF 1.1 read with default options does not unfold: there the same bytes denote themselves)
            fl.append(("folded text field, lines ending in backslash + %r, CIF %d" % (tl, dialect), doc, unfold(lines) if dialect == 2 else "\\\n" + "\n".join(lines)))
    nfl = 0
    for key, po, pr, leak in parse_docs(binary, [(d[1], i) for i, d in enumerate(fl)], chunk=40):
        label, doc, val = fl[key]
        problems = []
        if po is None:
            problems.append("cif_parse did not return: " + sanitizer_signature(leak or ""))
        else:
            errs = [e.get("code") for e in po.get("log", []) if e.get("cb") == "error"]
            items = ((observed_content(pr["state"]) if pr and "state" in pr else None) or {}).get("b", {}).get("items", {})
            if po.get("rc") != 0 or errs:
                problems.append("rc %s, errors %s" % (po.get("rc"), errs[:3]))
            if (items.get("_v") or {}).get("t") != val or "_before" not in items or "_after" not in items:
                problems.append("value read as %s, denoted %s" % (json.dumps((items.get("_v") or {}).get("t")), json.dumps(val)))
        if problems:
            rep.violation("folded text field: %s" % re.sub(r"[0-9]+", "N", problems[-1])[:40], "%s: %s" % (label, "; ".join(problems)), {"label": label, "document": doc})
        else:
            nfl += 1
    total += len(fl); total_ok += nfl
    log("[C01 folded lines] documents %d ok %d" % (len(fl), nfl))
    # spellings of codes and names: every printable ASCII character and some others at the first, a middle and the last
    # position of a block code, a frame code and a data name (the generator's own documents use b, f and _n1.. only).  A
    # code is any run of non-blank characters after data_ / save_, a name any such run after the underscore.
    sp = []
    chars = [chr(c) for c in range(33, 127)] + ["\u00e9", "\u03c3", "\u20ac", "\U0001d11e", "\u00a0", "\ufffd"]
    for ch in chars:
        for pos, body in (("first", ch + "ab"), ("mid", "a" + ch + "b"), ("last", "ab" + ch)):
            for dialect, magic in ((2, "#\\#CIF_2.0\n"), (1, "#\\#CIF_1.1\n")):
                if dialect == 1 and ord(ch) > 126:
                    continue
                doc = magic + "data_" + body + "\n_x 1\nsave_" + body + "\n_y 2\nsave_\n_" + body + " 3\n_z 4\n"
                one = lambda t: {"k": "char", "t": t, "q": 0}
                exp = {body: {"items": {"_x": one("1"), "_" + body: one("3"), "_z": one("4")}, "loops": [], "frames": {body: {"items": {"_y": one("2")}, "loops": [], "frames": {}}}}}
                sp.append(("spelling U+%04X %s, CIF %d" % (ord(ch), pos, dialect), doc, exp))
    nsp = 0
    for key, po, pr, leak in parse_docs(binary, [(doc, i) for i, (label, doc, exp) in enumerate(sp)], chunk=100):
        label, doc, exp = sp[key]
        problems = []
        if po is None:
            problems.append("cif_parse did not return: " + sanitizer_signature(leak or ""))
        else:
            if po.get("rc") != 0 or [e for e in po.get("log", []) if e.get("cb") == "error"]:
                problems.append("rc %s, errors %s" % (po.get("rc"), [e.get("code") for e in po.get("log", []) if e.get("cb") == "error"][:3]))
            got = observed_content(pr["state"]) if pr and "state" in pr else None
            if got != exp:
                problems.append("content %s, denoted %s" % (json.dumps(got, ensure_ascii=True)[:240], json.dumps(exp, ensure_ascii=True)[:240]))
        if problems:
            rep.violation("%s: %s" % (re.sub(r"U\+[0-9A-F]+", "U+X", label), re.sub(r"[0-9]+", "N", problems[0])[:50]), "%s: %s" % (label, "; ".join(problems)), {"label": label, "document": doc})
        else:
            nsp += 1
    total += len(sp); total_ok += nsp
    log("[C01 spellings] documents %d ok %d" % (len(sp), nsp))
    return rep.finish({"states": max(tstates, 1), "transitions": max(ttrans, 1), "traces_validated_against_impl": total_ok,
                       "documents": total, "configs": covs, "palette_values": len(PALETTE), "size_class_documents": len(big), "exhaustive": tier != "quick",
                       "explanation": "every value of the palette x every admissible presentation x every separator x every context (single slots), and every ordered pair of adjacent value tokens in the pair configurations"},
                      ["the renderer only encodes characters and picks the terminator style; the concrete syntax is produced by CifDoc.tla"])


# ------------------------------------------------------------------------------------------------ C12
DEFECTS = ["missing_value", "missing_value_loop", "missing_value_table", "dup_scalar", "dup_scalar_case", "dup_loop_stored", "dup_loop_header", "dup_loop_header_case", "dup_loop_only", "dup_loop_twice", "dup_scalar_of_loop", "dup_scalar_of_loop1",
           "dup_block", "dup_frame", "partial_packet", "null_loop", "null_loop_loop", "empty_loop", "missing_endquote", "missing_endquote_dq",
           "unclosed_text", "unclosed_triple", "missing_space_qq", "missing_space_qname", "missing_space_list", "stray_cbracket", "stray_cbrace",
           "missing_cbracket", "missing_cbrace", "missing_key", "missing_key_bare", "null_key", "unquoted_key", "unquoted_key_sp", "unquoted_key_eol", "unquoted_key_q", "null_key_sp", "missing_key_only", "text_key", "reserved_data",
           "reserved_stop", "reserved_global", "unexpected_value", "unexpected_value_q", "unexpected_term", "no_frame_term", "nested_frame",
           "eof_in_frame", "overlength", "maxlength", "overlength_u4", "maxlength_u4", "long_u4_value", "lookalike_stop", "lookalike_loop", "lookalike_global", "lookalike_qmark", "disallowed_char", "disallowed_char_cmt", "disallowed_del", "no_block_header"]


def c12(tier, replay=None):
    rep = Report("C12", tier, "model_checking")
    binary = build("asan")
    rnd = random.Random(SEED)
    q = lambda xs: "{" + ", ".join('"%s"' % x for x in xs) + "}"
    extra_cfg = " DEFECTS = %s\n" % q(DEFECTS)
    if tier == "quick":
        plans = [("d-host2", ["word", "apos", "ml"], ["bare", "sq", "tdq", "text"], ["sp", "eol"], ["eof", "eol", "cmt"], 2)]
    else:
        # every palette value in every presentation next to each defect (one host item), the interacting values in pairs,
        # three host items for the position-dependent defects; each plan stratified down to 30 000 documents
        plans = [("d-host1", sorted(PALETTE), ALLPRES, ["sp", "eol", "cmt"], ["eof", "eol", "cmt"], 1),
                 ("d-host2", ["word", "apos", "ml", "unk", "semi", "bslend"], ["bare", "sq", "tdq", "text", "textpf"], ["sp", "eol"], ["eof", "eol", "cmt"], 2),
                 ("d-host3", ["word", "apos", "ml"], ["bare", "sq", "text"], ["sp", "eol"], ["eof"], 3)]
    covs = []
    tstates = ttrans = total = total_ok = 0
    per_class = collections.Counter()
    for name, vids, pres, seps, tails, ns in plans:
        wd = scratch_dir("defect-" + name)
        with open(os.path.join(wd, "MCDefect.tla"), "w") as f:
            f.write("---- MODULE MCDefect ----\nEXTENDS CifDefect\nMCPalette == %s\n====\n" % palette_tla(sorted(PALETTE)))
        for m in ("CifDoc.tla", "CifDefect.tla"):
            shutil.copy(os.path.join(SPEC, m), wd)
        cfgp = os.path.join(wd, "MCDefect.cfg")
        cfg = gen_cfg(2, vids, pres, seps, ["scalars"], tails, ns).replace("SPECIFICATION Spec", "SPECIFICATION DSpec").replace("INVARIANT GenInvariant\nINVARIANT EmitDoc", "INVARIANT PlantedIsVisible\nINVARIANT EmitDefect")
        cfg = cfg.replace("CONSTANTS\n", "CONSTANTS\n" + extra_cfg)
        open(cfgp, "w").write(cfg)
        out = os.path.join(wd, "tlc.out")
        t0 = time.time()
        with open(out, "w") as fo:
            try:
                subprocess.run(["tlc", "-workers", str(NCPU), "-metadir", os.path.join(wd, "meta"), "-config", cfgp, os.path.join(wd, "MCDefect.tla")],
                               stdout=fo, stderr=subprocess.STDOUT, cwd=wd, timeout=2400)
            except subprocess.TimeoutExpired:
                pass
        tail = subprocess.run(["tail", "-c", "6000", out], capture_output=True, text=True).stdout
        if "No error has been found" not in tail:
            i = tail.find("Error:")
            cleanup(wd)
            raise Infra("TLC failed on CifDefect %s: %s" % (name, tail[i:i + 2000]))
        m = re.search(r"(\d+) states generated, (\d+) distinct states found", tail)
        tstates += int(m.group(2)); ttrans += int(m.group(1))
        docs = [o for tag, o in iter_tlc_json(out, ("DEFECT",))]
        cleanup(wd)
        cap = 8000 if tier == "quick" else 30000
        if len(docs) > cap:
            # keep every class represented
            byc = collections.defaultdict(list)
            for o in docs:
                byc[o["defect"]].append(o)
            docs = []
            for c, lst in byc.items():
                rnd.shuffle(lst)
                docs += lst[:max(40, cap // len(byc))]
        jobs = [(render(o["d"]["doc"], ("lf", "crlf", "lf", "cr")[i % 4]), i) for i, o in enumerate(docs)]
        nok = 0
        for key, po, pr, leak in parse_docs(binary, jobs):
            o = docs[key]
            d = o["d"]
            label = "%s at %d of %s" % (o["defect"], o["pos"], "+".join("%s/%s/%s" % (s["v"], s["p"], s["s"]) for s in o["slots"]))
            per_class[o["defect"]] += 1        # planted (the vacuity guard is about generation, not about the parse surviving)
            if po is None:
                rep.violation("%s: abnormal termination %s" % (o["defect"], sanitizer_signature(leak or "")), "cif_parse did not return on %s" % label, {"text": jobs[key][0], "stderr": (leak or "")[-1500:]})
                continue
            problems = []
            errs = [e for e in po.get("log", []) if e.get("cb") == "error"]
            if d["code"] == 0:
                if errs:
                    problems.append("error %s reported for a document without defect" % errs[0]["code"])
            elif not errs:
                problems.append("no error reported (rc %s), expected %s" % (po.get("rc"), d["code"]))
            else:
                if errs[0]["code"] != d["code"]:
                    problems.append("first error %s, documented %s" % (errs[0]["code"], d["code"]))
                elif not (d["low"] <= errs[0]["line"] <= d["high"]):
                    problems.append("error %s at line %s, expected within %s..%s" % (errs[0]["code"], errs[0]["line"], d["low"], d["high"]))
                if any(e["line"] < 1 for e in errs):
                    problems.append("line number < 1")
            if po.get("rc") != 0:
                problems.append("rc %s although every error was accepted" % po.get("rc"))
            exp = expected_content(d)
            got = observed_content(pr["state"]) if pr and "state" in pr else None
            if got != exp:
                ok_alt = False
                if d.get("alt") == "empty_loop_kept" and got is not None:
                    g2 = json.loads(json.dumps(got))
                    for b in g2.values():
                        b["loops"] = [l for l in b["loops"] if l["packets"]]
                    ok_alt = (g2 == exp)
                if not ok_alt:
                    problems.append("content after recovery %s, documented %s" % (json.dumps(got, ensure_ascii=True)[:400], json.dumps(exp, ensure_ascii=True)[:400]))
            if leak:
                problems.append("memory leaked (LeakSanitizer)")
            if problems:
                rep.violation("%s: %s" % (o["defect"], re.sub(r"[0-9]+", "N", problems[0])[:60]), "%s: %s" % (label, "; ".join(problems)),
                              {"text": jobs[key][0], "documented": {"code": d["code"], "lines": [d["low"], d["high"]], "content": exp}})
            else:
                nok += 1
        total += len(docs); total_ok += nok
        covs.append({"config": name, "documents": len(docs), "as_documented": nok})
        log("[C12 %s] documents %d ok %d" % (name, len(docs), nok))
        if not rep.samples and docs:
            o = docs[len(docs) // 2]
            rep.samples.append({"defect": o["defect"], "document": render(o["d"]["doc"])[:300], "documented_code": o["d"]["code"], "line_window": [o["d"]["low"], o["d"]["high"]]})
    missing = [c for c in DEFECTS if per_class[c] == 0]
    if missing:
        raise Infra("defect classes never planted: %s" % missing)
    # the class "disallowed character" at the boundaries of the character classes of CIF 2.0: one character in a quoted
    # value, a bare value, a text field and a comment.  A disallowed one is reported (CIF_DISALLOWED_CHAR, on its line,
    # once) and then accepted as it is; an allowed neighbour is not reported at all.
    from check_roundtrip import CHAR_BOUNDS, cif2_char_ok
    cdocs = []
    for cp in CHAR_BOUNDS:
        if cp in (0x09, 0x20):
            continue
        ch = chr(cp)
        for where, body, val in (("quoted", "_v 'a%sb'" % ch, "a%sb" % ch), ("bare", "_v a%sb" % ch, "a%sb" % ch), ("text", "_v\n;a%sb\n;" % ch, "a%sb" % ch), ("comment", "_v 1 # a%sb" % ch, "1")):
            cdocs.append((cp, where, "#\\#CIF_2.0\ndata_b\n_u 0\n%s\n_w 2\n" % body, val))
    nch = 0
    for key, po, pr, leak in parse_docs(binary, [(d[2], i) for i, d in enumerate(cdocs)], chunk=100):
        cp, where, doc, val = cdocs[key]
        label = "U+%04X in a %s" % (cp, where)
        problems = []
        if po is None:
            problems.append("cif_parse did not return: " + sanitizer_signature(leak or ""))
        else:
            errs = [(e.get("code"), e.get("line")) for e in po.get("log", []) if e.get("cb") == "error"]
            want = [] if cif2_char_ok(ch := chr(cp)) else [(104, 5 if where == "text" else 4)]
            if errs != want:
                problems.append("errors %s, documented %s" % (errs[:3], want))
            got = observed_content(pr["state"]) if pr and "state" in pr else None
            items = (got or {}).get("b", {}).get("items", {})
            # (a noncharacter may reach the parser as U+FFFD: the decoder's substitution, not the parser's)
            if po.get("rc") != 0 or items.get("_v", {}).get("t") not in ((val,) if cif2_char_ok(ch) else (val, val.replace(ch, "\ufffd"))) or "_u" not in items or "_w" not in items:
                problems.append("rc %s, content %s" % (po.get("rc"), json.dumps(items, ensure_ascii=True)[:200]))
        if problems:
            rep.violation("disallowed character class: %s: %s" % (where, re.sub(r"[0-9]+", "N", problems[0])[:50]), "%s: %s" % (label, "; ".join(problems)), {"label": label, "document": doc})
        else:
            nch += 1
    total += len(cdocs); total_ok += nch
    log("[C12 character classes] documents %d ok %d" % (len(cdocs), nch))
    # the class "over-long line" at the limit: a line of exactly 2048 characters is no defect wherever it occurs; one of 2049
    # is reported once (CIF_OVERLENGTH_LINE, on that line) and accepted as it is.  Contexts: a bare value, a quoted value,
    # a comment, the first / a middle / the last line of a text field, a middle / the last line of a triple-quoted string,
    # the last line of the file without terminator; LF, CR LF and CR
    ldocs = []
    for n in (2047, 2048, 2049, 2050):
        x = lambda k: "x" * max(k, 0)
        forms = [("bare value", "_v " + x(n - 3), 4, x(n - 3), 0), ("quoted value", "_v '" + x(n - 5) + "'", 4, x(n - 5), 1), ("comment", "_v 1\n#" + x(n - 1), 5, "1", 0),
                 ("first line of a text field", "_v\n;" + x(n - 1) + "\nz\n;", 5, x(n - 1) + "\nz", 1), ("middle line of a text field", "_v\n;a\n" + x(n) + "\nz\n;", 6, "a\n" + x(n) + "\nz", 1),
                 ("last line of a text field", "_v\n;a\n" + x(n) + "\n;", 6, "a\n" + x(n), 1),
                 ("middle line of a triple-quoted string", "_v \'\'\'a\n" + x(n) + "\nz\'\'\'", 5, "a\n" + x(n) + "\nz", 1),
                 ("last line of a triple-quoted string", "_v \'\'\'a\n" + x(n - 3) + "\'\'\'", 5, "a\n" + x(n - 3), 1)]
        for where, body, line, val, q in forms:
            for eol in ("\n", "\r\n", "\r"):
                ldocs.append((n, where, ("#\\#CIF_2.0\ndata_b\n_u 0\n%s\n_w 2\n" % body).replace("\n", eol), line, val, q, eol))
        ldocs.append((n, "last line of the file, unterminated", "#\\#CIF_2.0\ndata_b\n_u 0\n_w 2\n_v " + x(n - 3), 5, x(n - 3), 0, "\n"))
    nll = 0
    for key, po, pr, leak in parse_docs(binary, [(d[2], i) for i, d in enumerate(ldocs)], chunk=20):
        n, where, doc, line, val, q, eol = ldocs[key]
        label = "a line of %d characters: %s (%s)" % (n, where, {"\n": "LF", "\r\n": "CR LF", "\r": "CR"}[eol])
        problems = []
        if po is None:
            problems.append("cif_parse did not return: " + sanitizer_signature(leak or ""))
        else:
            errs = [(e.get("code"), e.get("line")) for e in po.get("log", []) if e.get("cb") == "error"]
            want = [] if n <= 2048 else [(108, line)]
            if errs != want:
                problems.append("errors %s, documented %s" % (errs[:3], want))
            items = ((observed_content(pr["state"]) if pr and "state" in pr else None) or {}).get("b", {}).get("items", {})
            if po.get("rc") != 0 or items.get("_v") != {"k": "char", "t": val, "q": q} or "_u" not in items or "_w" not in items:
                problems.append("rc %s, _v read as %s" % (po.get("rc"), json.dumps(items.get("_v"))[:80]))
        if problems:
            rep.violation("line length limit: %s, %s: %s" % (where, "within the limit" if n <= 2048 else "beyond the limit", re.sub(r"[0-9]+", "N", problems[0])[:50]), "%s: %s" % (label, "; ".join(problems)), {"label": label, "document_head": doc[:200], "line_length": n})
        else:
            nll += 1
    total += len(ldocs); total_ok += nll
    log("[C12 line length limit] documents %d ok %d" % (len(ldocs), nll))
    return rep.finish({"states": max(tstates, 1), "transitions": max(ttrans, 1), "traces_validated_against_impl": total_ok,
                       "documents": total, "configs": covs, "defect_classes": len(DEFECTS), "documents_per_class": dict(per_class), "exhaustive": tier != "quick",
                       "explanation": "every defect class x every admissible position among the host items x host items over the palette / presentations / separators"},
                      ["host documents are scalar-item documents of CifDoc.tla; each class has one or two representative fragments"])


# ------------------------------------------------------------------------------------------------ C08
def check_buffer_model(tier):
    """M1: CifBuffer.tla - per-fill folding with the carry flag is independent of the cuts (exhaustive, small streams)"""
    n = 6 if tier == "quick" else 8
    cfg = "SPECIFICATION Spec\nCONSTANTS\n MaxLen = %d\n CARRY = TRUE\nINVARIANT ChunkingIndependence LineCountIndependence NoCrLeft OrdinaryPreserved\nCHECK_DEADLOCK FALSE\n" % n
    out, st, wd = run_tlc("CifBuffer", cfg, "buffer", timeout=1500)
    cleanup(wd)
    if not st["ok"]:
        raise Infra("CifBuffer.tla: " + st["error"][:1200])
    return st


def pad_bytes(n, eol):
    """n bytes of insignificant text (spaces and comment lines), and the number of line terminators in it"""
    e = EOLS[eol]
    out = []
    lines = 0
    line = 1500 + len(e)
    while n >= line + 2:
        out.append("#" + "p" * (line - 1 - len(e)) + e)
        n -= line
        lines += 1
    if n >= 1 + len(e) + 1 or (n >= 1 + len(e)):
        # one more shorter comment line
        k = n - len(e)
        if k >= 1:
            out.append("#" + "q" * (k - 1) + e)
            n = 0
            lines += 1
    out.append(" " * n)
    return "".join(out), lines


INTERESTING = set("'\";\\[]{}:#_") | {"\r", "\n"}


def variants_for(text_chars, eol, rnd, offsets, max_pos=14):
    """(variant text, pad lines) list: the document with padding after the magic line so that interesting bytes fall on
    the 4096-byte read boundary"""
    base = render(text_chars, eol)
    b = base.encode("utf-8")
    m = base.index(EOLS[eol]) + len(EOLS[eol])        # after the magic line
    mb = len(base[:m].encode("utf-8"))
    # byte positions of interesting characters
    pos = []
    bi = 0
    for ch in base:
        n = len(ch.encode("utf-8"))
        if bi >= mb and (ch in INTERESTING or n > 1):
            pos.append((bi, n))
        bi += n
    if len(pos) > max_pos:
        pos = rnd.sample(pos, max_pos)
    res = [(base, 0, "plain")]
    for bp, n in pos:
        for off in offsets(n):
            # byte bp+off becomes the first byte of the second read (absolute offset 4096)
            need = (4096 - (bp + off)) % 4096
            pad, lines = pad_bytes(need, eol)
            if len(pad.encode()) != need:
                continue
            res.append((base[:m] + pad + base[m:], lines, "byte %d+%d at 4096" % (bp, off)))
    return res


def c08(tier, replay=None):
    rep = Report("C08", tier, "model_checking")
    binary = build("asan")
    rnd = random.Random(SEED)
    st = check_buffer_model(tier)
    # base documents: well-formed (CifDoc) and defective (CifDefect)
    vids = ["word", "apos", "ml", "mlsemi", "mlblank", "bslend", "u2", "u3", "u4", "empty", "nl", "nlend", "semi", "unk"]
    out, st1, wd = run_doc_tlc("c08-base", 2, vids, ALLPRES, ["sp", "eol", "cmt", "none"], ["scalars", "loop1", "list", "table"], ["eof", "eol"], 2 if tier != "quick" else 1)
    if not st1["ok"]:
        cleanup(wd); raise Infra("TLC failed on CifDoc (C08 bases): " + st1.get("error", "")[:1000])
    bases = [o for tag, o in iter_tlc_json(out, ("DOC",))]
    cleanup(wd)
    rnd.shuffle(bases)
    nb = 60 if tier == "quick" else 400
    # prefer bases with line terminators or non-ASCII characters inside values
    rich = [o for o in bases if any(s["v"] in ("ml", "mlsemi", "mlblank", "u2", "u3", "u4", "nl", "nlend") for s in o["slots"])]
    bases = (rich[:nb * 2 // 3] + bases[:nb])[:nb]
    # CIF 1.1 documents: quoted strings with embedded delimiters (a quote ends the string only before white space, so the
    # scanner looks one character ahead - possibly into the next buffer fill)
    out, st1b, wd = run_doc_tlc("c08-base1", 1, ["word", "apos", "aposend", "quot", "both", "q2", "dq2", "semi", "ml", "br"], ["bare", "sq", "dq", "text"], ["sp", "eol", "cmt"], ["scalars", "loop1"], ["eof", "eol"], 2 if tier != "quick" else 1)
    if not st1b["ok"]:
        cleanup(wd); raise Infra("TLC failed on CifDoc (C08 CIF 1.1 bases): " + st1b.get("error", "")[:1000])
    bases1 = [o for tag, o in iter_tlc_json(out, ("DOC",))]
    cleanup(wd)
    rnd.shuffle(bases1)
    quoty = [o for o in bases1 if any(s["v"] in ("apos", "aposend", "quot", "both", "q2", "dq2") and s["p"] in ("sq", "dq") for s in o["slots"])]
    nb1 = 30 if tier == "quick" else 200
    nb2 = len(bases)
    bases += (quoty[:nb1 * 2 // 3] + bases1[:nb1])[:nb1]
    st1 = dict(st1, distinct=st1["distinct"] + st1b["distinct"], generated=st1["generated"] + st1b["generated"])
    offs = (lambda n: range(0, n + 1)) if tier != "quick" else (lambda n: (0, 1) if n == 1 else (0, 1, n))
    jobs, meta = [], []
    for bi, o in enumerate(bases):
        for eol in ("lf", "crlf", "cr"):
            for text, lines, what in variants_for(o["d"]["doc"], eol, rnd, offs, max_pos=8 if tier == "quick" else 20):
                jobs.append((text, len(meta))); meta.append((bi, eol, lines, what))
        mixed = render(o["d"]["doc"], mixed_rnd=random.Random(SEED + bi))
        jobs.append((mixed, len(meta))); meta.append((bi, "mixed", 0, "plain"))
        if bi >= nb2:
            # CIF 1.1 documents (no version comment needed): the same document after one empty line, in each convention
            for eol in ("lf", "crlf", "cr"):
                jobs.append((EOLS[eol] + render(o["d"]["doc"], eol), len(meta))); meta.append((bi, eol, 1, "after an empty first line"))
    # long tokens across the scan buffer (131200 units) and several reads
    longs = []
    sizes = [4090, 4095, 4096, 4097, 8191, 8192, 131199, 150015] if tier == "quick" else [4090 + i for i in range(12)] + [8190, 8191, 8192, 8193, 131190, 131199, 131200, 131201, 131210, 262400, 300000]
    for n in sizes:
        for eol in ("lf", "crlf"):
            e = EOLS[eol]
            body_lines = []
            left = n
            k = 0
            while left > 0:
                ln = min(left, 1999)
                body_lines.append(("L%d-" % k + "z" * ln)[:ln] if ln > 4 else "z" * ln)
                left -= ln + 1
                k += 1
            body = "\n".join(body_lines)
            doc = "#\\#CIF_2.0" + e + "data_b" + e + "_n1" + e + ";" + body.replace("\n", e) + e + ";" + e + "_n2 'after'" + e
            longs.append((doc, n, eol, body))
    # long text fields made of supplementary characters (two UTF-16 units, four UTF-8 bytes each) with 65-unit lines, after
    # some three-byte characters that put the byte reads out of step with the unit buffer; with 0..3 blanks of padding in
    # front a surrogate pair straddles every kind of boundary (read, full scan buffer) in one of the variants
    for pad in ((0, 1, 2, 3, 4, 5) if tier == "quick" else range(8)):
        body = "\u20ac" * 1000 + "\n" + "\n".join("\U0001f600" * 32 for _ in range(2200 if tier == "quick" else 4500))
        doc = "#\\#CIF_2.0\n" + " " * pad + "data_b\n_n1\n;" + body + "\n;\n_n2 'after'\n"
        longs.append((doc, len(body), "lf", body))
        # the same with single-byte filler in between: then a read of 4096 bytes yields more units than the scan buffer has
        # room for when it is nearly full, and the conversion stops exactly at the buffer's end (inside the emoji lines)
        for cap in (131200,) if tier == "quick" else (131200, 262400):
            head_units = 11 + 7 + 4 + 1        # without the padding: the padding shifts everything behind it by one unit each
            filler_units = cap - 320 - head_units - 1001
            filler = "\n".join(("F%06d:" % i + "abcdefghijklmnopqrstuvwxyz0123456789ABCDEFGHIJKLMNOPQRSTUVWXYZ")[:63] for i in range(filler_units // 64 + 1))[:filler_units - 1] + "\n"
            body2 = "\u20ac" * 1000 + "\n" + filler + "\n".join("\U0001f600" * 32 for _ in range(10)) + "\n" + "\n".join("tail line %d" % i for i in range(400))
            doc2 = "#\\#CIF_2.0\n" + " " * pad + "data_b\n_n1\n;" + body2 + "\n;\n_n2 'after'\n"
            longs.append((doc2, len(body2), "lf", body2))
    for doc, n, eol, body in longs:
        jobs.append((doc, len(meta))); meta.append((-1, eol, 0, ("long", n, body)))
    # short tokens placed late: the last character of the token (its closing delimiter where it has one) is the D-th character
    # of the file, for D around the reads (4096 bytes each) and around the moments the scan buffer (131200 units) has no room
    # left for a whole read and is compacted while the token is still being looked at (CIF 2.0 looks one character ahead,
    # for the colon of a table key); the padding in front is comment
    LATE = [("text field", "\n;hello world\n;", "hello world", 1), ("triple-quoted", " \'\'\'hello world\'\'\'", "hello world", 1),
            ("triple-double-quoted", ' """hello\nworld"""', "hello\nworld", 1), ("quoted", " 'hello world'", "hello world", 1), ("bare", " hello_world", "hello_world", 0),
            # table keys: what follows the closing delimiter (the colon) decides what the token is
            ("table key, triple-quoted", ' {"""k"""', None, ":v}"), ("table key, triple-apostrophe", " {\'\'\'k\'\'\'", None, ":v}"), ("table key, quoted", " {'k'", None, ":v}"),
            ("list member, triple-quoted", ' ["""k"""', None, " v]")]
    centres = (4096, 131072) if tier == "quick" else (4096, 8192, 126976, 131072, 131200, 135168, 262144)
    for centre in centres:
        for D in range(centre - 2, centre + 3):
            for what, tok, val, q in LATE:
                post = ""
                if val is None:
                    post, q = q, 1
                    val = {"k": "table", "e": [["k", {"k": "char", "t": "v", "q": 0}]]} if what.startswith("table") else {"k": "list", "e": [{"k": "char", "t": "k", "q": 1}, {"k": "char", "t": "v", "q": 0}]}
                for magic in (("#\\#CIF_2.0\n",) if (tier == "quick" and what in ("quoted", "bare")) or post else ("#\\#CIF_2.0\n", "")):
                    if not magic and what.startswith("triple"):
                        continue
                    fixed = magic + "data_b\n_n1" + tok
                    padn = D - len(fixed)
                    pad, left, k = [], padn, 0
                    while left > 0:
                        ln = min(left, 1500)
                        pad.append(("#%d " % k + "c" * ln)[:ln - 1] + "\n" if ln > 1 else "\n"); left -= ln; k += 1
                    doc = magic + "".join(pad) + "data_b\n_n1" + tok + post + "\n_n2 'after'\n"
                    assert len(magic + "".join(pad) + "data_b\n_n1" + tok) == D
                    jobs.append((doc, len(meta))); meta.append((-1, "lf", 0, ("late", D, (what + (" (CIF 1.1)" if not magic else ""), val, q))))
    nok = total = 0
    base_errs = {}
    results = parse_docs(binary, jobs, chunk=60, syntax=True)
    # first pass: reference error lists and data-name positions (plain LF)
    base_names = {}
    names_of = lambda po: [(e.get("t"), e.get("line"), e.get("col")) for e in po.get("log", []) if e.get("cb") in ("dn", "kw")]
    for key, po, pr, leak in results:
        bi, eol, lines, what = meta[key]
        if bi >= 0 and eol == "lf" and what == "plain" and po:
            base_errs[bi] = [(e["code"], e["line"]) for e in po.get("log", []) if e.get("cb") == "error"]
            base_names[bi] = names_of(po)
    for key, po, pr, leak in results:
        bi, eol, lines, what = meta[key]
        total += 1
        if po is None:
            rep.violation("abnormal termination %s" % sanitizer_signature(leak or ""), "cif_parse did not return (%s, %s)" % (eol, what), {"text_head": jobs[key][0][:300], "stderr": (leak or "")[-1500:]})
            continue
        problems = []
        errs = [(e["code"], e["line"]) for e in po.get("log", []) if e.get("cb") == "error"]
        got = observed_content(pr["state"]) if pr and "state" in pr else None
        if bi >= 0:
            o = bases[bi]
            exp = expected_content(o["d"])
            if got != exp:
                problems.append("content %s, denoted %s" % (json.dumps(got, ensure_ascii=True)[:300], json.dumps(exp, ensure_ascii=True)[:300]))
            ref = [(c, l + lines) for c, l in base_errs.get(bi, [])]
            if errs != ref:
                problems.append("errors %s, with LF and no padding %s (shifted by %d pad lines)" % (errs[:4], ref[:4], lines))
            # line and column reported for every data name and loop_ keyword: the same in every terminator convention
            nref = [(t, l + lines, c) for t, l, c in base_names.get(bi, [])]
            if eol != "mixed" and names_of(po) != nref:
                problems.append("name positions %s, with LF and no padding %s (shifted by %d lines)" % (names_of(po)[:3], nref[:3], lines))
            label = "%s %s" % (o["ctx"], "+".join("%s/%s/%s" % (s["v"], s["p"], s["s"]) for s in o["slots"]))
        else:
            kind_, n, body = what
            late = None
            if kind_ == "late":
                late, body, q_ = body
            exp = {"b": {"items": {"_n1": body if isinstance(body, dict) else {"k": "char", "t": body, "q": 1 if late is None else q_}, "_n2": {"k": "char", "t": "after", "q": 1}}, "loops": [], "frames": {}}}
            if late is not None and got != exp:
                problems.append("%s ending at character %d of the file read as %s, not %s" % (late, n, json.dumps(((got or {}).get("b", {}).get("items", {}) or {}).get("_n1"))[:120], json.dumps(exp["b"]["items"]["_n1"])))
            elif got != exp:
                t = ((got or {}).get("b", {}).get("items", {}).get("_n1") or {}).get("t")
                problems.append("text field of %d characters read back with %s characters%s" % (n, len(t) if isinstance(t, str) else t, "" if t is None or len(t) != len(body) else " (content differs)"))
            if errs:
                problems.append("errors %s" % errs[:3])
            label = ("long text field %d" % n) if late is None else "late token"
        if leak:
            problems.append("memory leaked (LeakSanitizer)")
        if problems:
            rep.violation("%s %s: %s" % (eol, what if isinstance(what, str) and what == "plain" else ("aligned" if bi >= 0 else "long"), re.sub(r"[0-9]+", "N", problems[0])[:50]),
                          "%s, terminators %s, %s: %s" % (label, eol, what if isinstance(what, str) else what[:2], "; ".join(problems)), {"text_hex": jobs[key][0].encode("utf-8").hex()[:20000]})
        else:
            nok += 1
    rep.samples.append({"base": render(bases[0]["d"]["doc"]), "variants": "LF / CR LF / CR / mixed; padding after the magic line placing each interesting byte on the 4096-byte read boundary"})
    log("[C08] variants %d ok %d (bases %d, long %d)" % (total, nok, len(bases), len(longs)))
    return rep.finish({"states": st["distinct"] + st1["distinct"], "transitions": st["generated"] + st1["generated"], "traces_validated_against_impl": nok,
                       "variants": total, "bases": len(bases), "long_token_sizes": sizes, "exhaustive": False,
                       "buffer_model": {"streams_up_to": 6 if tier == "quick" else 8, "states": st["distinct"]},
                       "explanation": "CifBuffer.tla (per-fill folding with carry) is checked for every stream and cut set up to the bound; on the real parser each base document of CifDoc.tla is rendered with LF / CR LF / CR / mixed terminators and with padding that places each interesting byte (terminators, delimiters, multi-byte characters, every byte of them) on the 4096-byte read boundary; content must equal the denotation and the error list the unpadded LF one shifted by the pad lines"},
                      ["production buffer sizes are used (4096-byte reads, 131200-unit scan buffer)"])


# ------------------------------------------------------------------------------------------------ C03
def defined_codes():
    src = open(os.path.join(REPO, "src", "cif.h"), encoding="utf-8", errors="replace").read()
    a, b = src.find("@defgroup return_codes"), src.find("CIF_TRAVERSE_CONTINUE")
    grp = re.sub(r"/\*.*?\*/", "", src[a:b], flags=re.S)
    return sorted({int(m.group(1)) for m in re.finditer(r"^[ \t]*#[ \t]*define[ \t]+CIF_[A-Z0-9_]+[ \t]+(\d+)[ \t]*$", grp, flags=re.M)})


def mutate_bytes(b, rnd):
    """a few byte-level mutations of a document"""
    out = []
    n = len(b)
    if n == 0:
        return out
    out.append(("trunc", b[:rnd.randrange(n)]))
    i = rnd.randrange(n)
    out.append(("flip", b[:i] + bytes([b[i] ^ (1 << rnd.randrange(8))]) + b[i + 1:]))
    ins = rnd.choice([b"\x00", b"\x01", b"\x0b", b"\x0c", b"\x7f", b"\x80", b"\xc0\xaf", b"\xe2\x82", b"\xf0\x9f\x98", b"\xed\xa0\x80", b"\xef\xbb\xbf", b"\xef\xbf\xbf", b"\xef\xb7\x90",
                      b"\xf4\x90\x80\x80", b"\xff", b"'", b'"', b";", b"\n;", b"[", b"{", b"]", b"}", b":", b"'''", b'"""', b"\\\n", b"data_", b"save_", b"loop_", b"global_", b"stop_", b"_", b"$x", b"\r", b"#\\#CIF_2.0"])
    i = rnd.randrange(n + 1)
    out.append(("insert", b[:i] + ins + b[i:]))
    i, j = sorted((rnd.randrange(n), rnd.randrange(n)))
    out.append(("delete", b[:i] + b[j:]))
    out.append(("dup", b[:j] + b[i:j] + b[j:]))
    return out


def encodings_of(text):
    res = []
    for enc, bom in (("utf-16-le", b"\xff\xfe"), ("utf-16-be", b"\xfe\xff"), ("utf-32-le", b"\xff\xfe\x00\x00"), ("utf-32-be", b"\x00\x00\xfe\xff")):
        try:
            e = text.encode(enc, "surrogatepass")
        except Exception:
            continue
        res.append((enc + "+bom", bom + e))
        res.append((enc, e))
    res.append(("utf8+bom", b"\xef\xbb\xbf" + text.encode("utf-8", "surrogatepass")))
    res.append(("latin1", text.encode("latin-1", "replace")))
    return res


OPTION_SETS = [None,
               {"prefer_cif2": -1}, {"prefer_cif2": 1}, {"prefer_cif2": 20}, {"max_frame_depth": 0}, {"max_frame_depth": -1},
               {"fold": -1, "prefix": -1}, {"fold": 1, "prefix": 1, "prefer_cif2": -1}, {"fold": 1, "prefix": -1}, {"extra_ws": "\x0b", "extra_eol": "\x0c"},
               # C1 controls and other bytes >= 0x80 in the extra character sets (cif.h allows C1 controls there; the harness
               # hands the UTF-8 bytes over, so lead bytes 0xC2 / 0xC3 and continuation bytes 0x85 .. 0xBF occur)
               {"extra_ws": "\u0085", "extra_eol": "\u009f"}, {"extra_ws": "\u00a0\u00ff", "extra_eol": "\u00ed"},
               {"enc": "ISO-8859-1"}, {"enc": "ISO-8859-1", "force": 1}, {"enc": "UTF-16LE", "force": 1}, {"force": 1}, {"enc": "UTF-8", "force": 1, "prefer_cif2": 1},
               {"enc": "no-such-encoding", "force": 1}, {"enc": "no-such-encoding"}]


PREFIX_DOCS = [
    ("#\\#CIF_2.0\ndata_a\n_x 'v'\n_y \"w\"\nloop_\n_p\n_q\n1 'v'\n2 \"w\"\n_l [1 'a' [b]]\n_t {'k':v \"m\":'x'}\n_m '''tq'''\n_n \"\"\"td\"\"\"\nsave_f\n_z\n;text\n;\nloop_ _u _w 1 2\nsave_\n", [None]),
    ("data_b\n_x 'it's'\n_y \"w\"\nloop_ _p _q 1 'v' ? \"w\"\nloop_ _r 'z'", [{"prefer_cif2": -1}, {"prefer_cif2": 1}]),
    ("#\\#CIF_1.1\ndata_c\nsave_f\n_x 'v'\nsave_\n_y\n;\\\nfol\\\nded\n;\n_z [x]\nloop_ _p 1 'v'", [None, {"fold": 1, "prefix": 1}]),
    ("data_d _t {'a':{'b':[1 2 {'c':'d'}]}} loop_ _p _q 'v' [1] \"w\" {'k':'v'}", [{"prefer_cif2": 1}]),
]


def options_valid(o):
    return not (o and o.get("enc") == "no-such-encoding")


def contract_run(binary, inputs, tier):
    """inputs: list of (label, bytes, opts, target) ; returns (events, per-input info)"""
    # phase 1: all-accepting run of every input (storing mode / given target)
    def cmds_for(b, opts, target, errors, escript=None, handler=False):
        c = {"op": "parse", "hex": b.hex(), "errors": errors}
        if target != "none":
            c["cif"] = "t"
        if opts:
            c["opts"] = opts
        if escript is not None:
            c["escript"] = escript
        if handler:
            c["handler"] = 1; c["query"] = 0
        pre = []
        if target == "populated":
            pre = [{"op": "cif_create", "cif": "t"}, {"op": "create_block", "cif": "t", "code": "b", "h": "hb"},
                   {"op": "set_value", "cont": "hb", "name": "_n1", "v": {"k": "char", "t": "pre", "q": 1}}, {"op": "container_free", "cont": "hb"}]
        post = []
        if target != "none":
            post = [{"op": "walk", "cif": "t", "script": [], "query": 0}, {"op": "write", "cif": "t", "bytes": 0},
                    {"op": "create_block", "cif": "t", "code": "zz_post", "h": "hp"}, {"op": "set_value", "cont": "hp", "name": "_p", "v": {"k": "na"}},
                    {"op": "container_destroy", "cont": "hp"}, {"op": "cif_destroy", "cif": "t"}]
        return pre + [c] + post + [{"op": "reset"}], len(pre)

    def run_many(specs):
        """specs: list of (key, cmds, npre) -> {key: outs or None}"""
        def run_chunk(ch):
            cmds = []
            spans = []
            for key, cs, npre in ch:
                spans.append((key, len(cmds), len(cmds) + len(cs), npre))
                cmds += cs
            t0 = time.time()
            rr = run_cifrun(binary, cmds, timeout=120)
            if time.time() - t0 > 20:
                log("  slow chunk %.0fs rc=%s outs=%d/%d first=%s" % (time.time() - t0, rr.rc, len(rr.outs), len(cmds), ch[0][0]))
            res = {}
            for key, a, b, npre in spans:
                res[key] = (rr.outs[a:b], npre) if b <= len(rr.outs) else (None, rr.stderr[:5000] if a <= len(rr.outs) < b else "")
            return res
        out = {}
        chunks = [specs[i:i + 100] for i in range(0, len(specs), 100)]
        for r in pmap(run_chunk, chunks):
            out.update(r)
        # executions lost together with a crashed neighbour are re-run alone
        lost = [s for s in specs if out[s[0]][0] is None and out[s[0]][1] == ""]
        for r in pmap(run_chunk, [[s] for s in lost]):
            out.update(r)
        return out

    specs = []
    for i, (label, b, opts, target, handler) in enumerate(inputs):
        cs, npre = cmds_for(b, opts, target, "accept", handler=handler)
        specs.append(((i, "accept"), cs, npre))
    first = run_many(specs)
    specs2 = []
    for i, (label, b, opts, target, handler) in enumerate(inputs):
        outs, npre = first[(i, "accept")]
        if outs is None:
            continue
        errs = [e for e in outs[npre].get("log", []) if e.get("cb") == "error"]
        n = len(errs)
        for k in sorted(set([1, 2, 3, n - 1, n]) if tier == "quick" else set(range(1, min(n, 12) + 1)) | {n}):
            if 1 <= k <= n:
                cs, np2 = cmds_for(b, opts, target, "script", escript=[0] * (k - 1) + [1000 + k], handler=handler)
                specs2.append(((i, "reject%d" % k), cs, np2))
        cs, np2 = cmds_for(b, opts, target, "die", handler=handler)
        specs2.append(((i, "die"), cs, np2))
    second = run_many(specs2)
    return first, second


def events_of(outs, npre, mode, valid, first_code, target):
    ev = [{"e": "start", "mode": mode, "valid": 1 if valid else 0}]
    p = outs[npre]
    for e in p.get("log", []):
        if e.get("cb") == "error":
            ev.append({"e": "err", "code": e["code"], "line": e["line"], "len": e["len"], "ans": e["r"]})
    ev.append({"e": "ret", "rc": p.get("rc", -1), "first": first_code})
    if target != "none" and len(outs) >= npre + 7:
        w, wr, cb, sv, cd, dd = outs[npre + 1:npre + 7]
        modify = 0 if (cb.get("rc") == 0 and sv.get("rc") == 0 and cd.get("rc") == 0) else (cb.get("rc") or sv.get("rc") or cd.get("rc") or 1)
        if "err" in w or "err" in cb:
            # no CIF came back (cif_parse failed before creating one): nothing to use afterwards
            return ev
        ev.append({"e": "post", "walk": w.get("rc", -1), "write": wr.get("rc", -1), "modify": modify, "destroy": dd.get("rc", -1)})
    return ev


def uninitialised_reads(rep, tier):
    """'without memory error or undefined behaviour ... for megabyte tokens': the address sanitizer does not see a read of
    memory that was allocated but never written.  A plain (unsanitized) build of the harness is run under valgrind's
    memcheck on inputs whose tokens outgrow the scan buffer (so that it is extended, not compacted) - well formed and not -
    followed by a walk, a write and the destruction of the result.  Any memcheck error is a violation."""
    import shutil as _sh
    if not _sh.which("valgrind"):
        raise Infra("valgrind is not installed")
    plain = build("plain")
    body = "\n".join(("L%07d:" % i + "jklmnopqrstuvwxyzABCDEFGHIJKLMNOPQRSTUVWXYZ0123456789abcdefgh")[:63] for i in range(2400 if tier == "quick" else 9000))
    docs = [("a text field of %d characters" % len(body), "#\\#CIF_2.0\ndata_b\n_before 'first value'\n_big\n;" + body + "\n;\n_after 'last value'\n"),
            ("an unterminated quoted string of 70000 characters", "#\\#CIF_2.0\ndata_b\n_v '" + "q" * 70000 + "\n_w 2\n"),
            ("a bare value of 140000 characters", "#\\#CIF_2.0\ndata_b\n_v " + "w" * 140000 + "\n_w 2\n"),
            ("a triple-quoted string, a loop and a list", "#\\#CIF_2.0\ndata_b\n_v \'\'\'" + body + "\'\'\'\nloop_ _a _b 1 2 3 4\n_l [1 2 {'k':v}]\n"),
            ("an unterminated text field of %d characters, CIF 1.1" % len(body), "data_b\n_v\n;" + body + "\n"),
            ("a comment of 200000 characters and a data name of 70000", "#\\#CIF_2.0\n#" + "c" * 200000 + "\ndata_b\n_" + "n" * 70000 + " 1\n_w 2\n")]
    n = 0
    for label, d in docs:
        for extra in ({"cif": "c"}, {}):
            cmds = [dict({"op": "parse", "text": d, "errors": "accept"}, **extra)]
            if extra:
                cmds += [{"op": "walk", "cif": "c", "script": []}, {"op": "write", "cif": "c", "bytes": 0}, {"op": "cif_destroy", "cif": "c"}]
            wd = scratch_dir("vg")
            inp = os.path.join(wd, "in.ndjson")
            open(inp, "w").write("".join(json.dumps(c) + "\n" for c in cmds))
            with open(inp) as fi:
                p_ = subprocess.run(["valgrind", "-q", "--error-exitcode=99", "--undef-value-errors=yes", "--leak-check=no", plain], stdin=fi, capture_output=True, text=True, timeout=900)
            cleanup(wd)
            n += 1
            if p_.returncode == 99 or "== Invalid" in p_.stderr or "uninitialised" in p_.stderr:
                m = re.search(r"==\d+== ([A-Z][^\n]*)\n==\d+==\s+at 0x[0-9A-F]+: (\w+)", p_.stderr)
                what = "%s in %s" % (m.group(1), m.group(2)) if m else "memcheck error"
                rep.violation("memcheck: " + what, "parsing %s (%s): valgrind reports %s" % (label, "into a CIF, then walk / write / destroy" if extra else "syntax only", what),
                              {"label": label, "stderr": p_.stderr[:2500], "document_head": d[:120]})
            elif p_.returncode != 0:
                raise Infra("valgrind run failed (rc %s): %s" % (p_.returncode, p_.stderr[-800:]))
    return n


def c03(tier, replay=None):
    rep = Report("C03", tier, "exploration")
    binary = build("asan")
    rnd = random.Random(SEED)
    codes = defined_codes()
    # inputs: grammar-derived documents (well-formed and defective), their byte mutations and re-encodings
    out, st1, wd = run_doc_tlc("c03-base", 2, ["word", "apos", "ml", "mlsemi", "u4", "bslend", "tq12", "semi", "empty"], ALLPRES, ["sp", "eol", "cmt", "none"], CTX2, ["eof", "eol"], 1)
    if not st1["ok"]:
        cleanup(wd); raise Infra("TLC failed (C03 bases): " + st1.get("error", "")[:800])
    bases = [render(o["d"]["doc"], ("lf", "crlf", "cr")[i % 3]) for i, (tag, o) in enumerate(iter_tlc_json(out, ("DOC",)))]
    cleanup(wd)
    rnd.shuffle(bases)
    nb = int(os.environ.get("C03_BASES", "0")) or (150 if tier == "quick" else 600)
    bases = bases[:nb]
    # hand-written seeds for constructs the generator does not produce
    seeds = ["", "﻿", "data_", "data_a loop_", "loop_ _a _a 1 2", "data_a\nloop_ _ 1", "data_a _x [", "data_a _x {'k':", "data_a _x {'k'", "data_a\n;", "data_a _x '''", "save_", "data_a save_f save_g",
             "#\\#CIF_2.0\ndata_a\n_x \ud800", "data_a _x \udc00y", "#\\#CIF_1.1\ndata_a _x [a]", "data_a _x 'a'b", "data_a _x\n;\\\n\\\n;", "data_a _x\n;> \\\n;", "data_a\n_x\n;>\\\\\n>a\\\n>\n;\n",
             "data_" + "c" * 2050, "data_a _" + "n" * 3000 + " 1", "data_a _x " + "v" * 70000, "data_a _x '" + "q" * 70000 + "'", "data_a\n_x\n;" + ("t" * 2000 + "\n") * 80 + ";\n", "data_a " + "_n 1 " * 3,
             "data_a loop_ " + " ".join("_i%d" % i for i in range(300)) + " " + "1 " * 600, "data_a _x " + "[" * 3000, "data_a _x " + "{'k':" * 500, "\x00", "\xff", "data_a _x \x7f",
             "\x01data_a _x 1", "\x0cdata_a _x 1", "\x7fdata_a", "\u00e9data_a _x 1", "\u20acdata_a", "\U0001d11edata_a _x 1"]
    inputs = []
    for i, t in enumerate(bases):
        b = t.encode("utf-8")
        inputs.append(("base", b, OPTION_SETS[i % len(OPTION_SETS)], ("new", "none", "populated")[i % 3], i % 5 == 0))
        for kind, mb in mutate_bytes(b, rnd):
            inputs.append((kind, mb, OPTION_SETS[rnd.randrange(len(OPTION_SETS))] if rnd.random() < 0.4 else None, ("new", "none", "populated")[rnd.randrange(3)], False))
        if i % 10 == 0:
            for kind, eb in encodings_of(t):
                inputs.append((kind, eb, rnd.choice([None, {"prefer_cif2": 1}, {"force": 1, "enc": "UTF-16LE"}]), "new", False))
    for t in seeds:
        b = t.encode("utf-8", "surrogatepass")
        for o in (None, {"prefer_cif2": -1}, {"prefer_cif2": 20}, {"max_frame_depth": 0}):
            inputs.append(("seed", b, o, "new", False))
        inputs.append(("seed16", t.encode("utf-16-le", "surrogatepass"), {"force": 1, "enc": "UTF-16LE"}, "new", False))
        inputs.append(("seed16bom", b"\xff\xfe" + t.encode("utf-16-le", "surrogatepass"), None, "none", False))
    # bytes that have no character in a table-based encoding (unassigned slots), decoded under that encoding: every high
    # byte once inside a value, a name, a comment and a text field, for a few encodings with holes and some without
    for enc in ("ISO-8859-7", "ISO-8859-3", "windows-1252", "Shift_JIS", "TIS-620", "ISO-8859-1", "US-ASCII", "KOI8-R"):
        for hb in ((0xFF, 0x81, 0xA5, 0xAE, 0xD2, 0xFD, 0x80, 0xA0) if tier == "quick" else range(0x80, 0x100)):
            for where, doc in (("value", b"data_x\n_a 'bc'\n_d %s\n_e 1\n"), ("name", b"data_x\n_a%s 1\n_e 2\n"), ("comment", b"data_x # %s\n_e 2\n"), ("text", b"data_x\n_t\n;a%sb\n;\n_e 2\n")):
                if tier == "quick" and where in ("comment", "text") and hb not in (0xFF, 0x81):
                    continue
                inputs.append(("hole-%s" % where, doc.replace(b"%s", bytes([hb])), {"enc": enc, "force": 1}, "new", False))
    # every prefix of compact documents that use each construct once (input that stops anywhere: inside a token, right
    # after a closing delimiter, between a name and its value, in the middle of a packet, inside a frame)
    for doc, optsets in PREFIX_DOCS if tier != "quick" else PREFIX_DOCS[:2]:
        b = doc.encode("utf-8")
        for o in optsets:
            for k in range(len(b) + 1):
                inputs.append(("prefix", b[:k], o, "new" if k % 4 else "populated", False))
    t0 = time.time()
    first, second = contract_run(binary, inputs, tier)
    log('[C03] executions done in %.1fs' % (time.time() - t0))
    # build the trace
    events = [{"e": "codes", "codes": codes}]
    leaks = []
    owners = []     # (event index, input index, mode)
    lost = []
    nexec = 0
    for (i, modek), (outs, npre) in list(first.items()) + list(second.items()):
        label, b, opts, target, handler = inputs[i]
        if outs is None:
            lost.append((i, modek, npre))
            continue
        fc = 0
        fo = first.get((i, "accept"))
        if fo and fo[0]:
            errs = [e for e in fo[0][fo[1]].get("log", []) if e.get("cb") == "error"]
            fc = errs[0]["code"] if errs else fo[0][fo[1]].get("rc", 0)
        ev = events_of(outs, npre, "die" if modek == "die" else "cb", options_valid(opts), fc, target)
        owners.append((len(events) + 1, i, modek))
        events += ev
        nexec += 1
        for o in outs:
            if "env_after" in o:
                rep.violation("environment changed by %s" % o.get("op"), "%s -> %s" % (o.get("env_before"), o["env_after"]), {"hex": b.hex()[:4000], "opts": opts})
            if o.get("op") == "reset" and o.get("leak"):
                leaks.append((i, modek))
    # attribute leaks to their allocation site: re-run the execution alone and read LeakSanitizer's report
    seen_sites = collections.Counter()
    for i, modek in leaks[:400]:
        label, b, opts, target, handler = inputs[i]
        site = "?"
        if len(seen_sites) < 12 or True:
            c = {"op": "parse", "hex": b.hex(), "errors": "die" if modek == "die" else ("accept" if modek == "accept" else "script")}
            if modek.startswith("reject"):
                k = int(modek[6:]); c["escript"] = [0] * (k - 1) + [1000 + k]
            if target != "none":
                c["cif"] = "t"
            if opts:
                c["opts"] = opts
            rr = run_cifrun(binary, [c, {"op": "reset"}], timeout=120)
            fr = re.findall(r"#\d+ 0x[0-9a-f]+ in (\w+) /repo/src/([\w./]+):(\d+)", rr.stderr)
            site = " < ".join("%s@%s" % (f[0], f[1]) for f in fr[:3]) or "?"
        seen_sites[site] += 1
        rep.violation("leak: allocated in " + site, "LeakSanitizer: memory allocated in %s is still allocated after the parse (policy %s) and cif_destroy" % (site, modek),
                      {"hex": b.hex()[:4000], "opts": opts, "policy": modek, "target": target})
    for i, modek, stderr in lost:
        label, b, opts, target, handler = inputs[i]
        rep.violation("no return: %s" % sanitizer_signature(stderr or ""), "cif_parse (or the use of its CIF afterwards) did not return: input kind %s, options %s, policy %s" % (label, opts, modek),
                      {"hex": b.hex()[:8000], "opts": opts, "target": target, "policy": modek, "stderr": (stderr or "")[:3000]})
    # TLC validates the whole trace against ParseContract.tla
    wd = scratch_dir("contract")
    trace = os.path.join(wd, "trace.ndjson")
    if os.environ.get("C03_KEEP"):
        trace = os.environ["C03_KEEP"]
    with open(trace, "w") as f:
        for e in events:
            f.write(json.dumps(e) + "\n")
    cfg = "SPECIFICATION Spec\nINVARIANT NotAccepted\nCHECK_DEADLOCK FALSE\n"
    t0 = time.time()
    out, st, wd2 = run_tlc("ParseContract", cfg, "contract", workers=1, env={"TRACE": trace}, timeout=2400, heap="8g")
    log('[C03] TLC validated %d events in %.1fs' % (len(events), time.time() - t0))
    text = open(out, errors="replace").read()
    cleanup(wd2)
    tstates = st["distinct"]
    if "Invariant NotAccepted is violated" not in text:
        cleanup(wd)
        raise Infra("TLC did not consume the whole trace: " + (st.get("error") or text[-1200:])[:1500])
    rejected = 0
    for at in sorted({int(m.group(1)) for m in re.finditer(r'<<"BREACH", (\d+)>>', text)}):
        rejected += 1
        own = [o for o in owners if o[0] <= at]
        ei, i, modek = own[-1] if own else (1, 0, "?")
        label, b, opts, target, handler = inputs[i]
        bad = events[at - 1]
        desc = {k: v for k, v in bad.items() if k in ("code", "rc", "first", "walk", "write", "modify", "destroy", "ans", "line")}
        if bad.get("e") == "ret":
            sigd = "ret rc=%s%s" % (bad.get("rc"), " die-first=%s" % bad.get("first") if modek == "die" else "")
        elif bad.get("e") == "post":
            sigd = "post " + " ".join("%s=%s" % (k, bad[k]) for k in ("walk", "write", "modify", "destroy") if bad.get(k))
        else:
            sigd = "%s %s" % (bad.get("e"), desc)
        rep.violation("contract: " + sigd,
                      "execution (input kind %s, options %s, policy %s, target %s) violates the parse contract at event %s" % (label, opts, modek, target, json.dumps(bad)),
                      {"hex": b.hex()[:8000], "opts": opts, "policy": modek, "target": target, "events": [e for e in events[ei - 1:ei + 12]]})
    cleanup(wd)
    kinds = collections.Counter(x[0] for x in inputs)
    rep.samples = [{"input_kind": inputs[i][0], "hex": inputs[i][1][:60].hex(), "options": inputs[i][2], "target": inputs[i][3]} for i in (0, len(inputs) // 2, len(inputs) - 1)]
    nvg = uninitialised_reads(rep, tier)
    log("[C03] inputs %d executions %d events %d lost %d rejected %d" % (len(inputs), nexec, len(events), len(lost), rejected))
    return rep.finish({"evaluations": nexec, "distinct_nontrivial": len({(x[1], json.dumps(x[2]), x[3]) for x in inputs}),
                       "rule": "inputs = CifDoc documents, 5 byte mutations each, UTF-16/32/BOM/Latin-1 re-encodings, hand-written seeds; crossed with 17 option sets, 3 targets, and callback policies accept-all / reject the k-th / default handler; distinct = distinct (bytes, options, target)",
                       "inputs": len(inputs), "input_kinds": dict(kinds), "memcheck_executions": nvg, "events_validated_by_tlc": len(events), "monitor_states": tstates, "executions_not_returning": len(lost),
                       "samples": rep.samples},
                      ["memory errors are made observable by ASan/UBSan (an execution that does not return is a rejected trace)",
                       "not coverage-guided: depth comes from starting at grammar-derived documents"])
