#!/usr/bin/env python3
"""Writes MANIFEST.json from the table below (single source of truth for what is claimed)."""
import json, os
HERE = os.path.dirname(os.path.dirname(os.path.abspath(__file__)))

CLAIMED = {
 "C04": dict(cat="model_checking", engine="tlc+replay", technique="TLC model checking of CifStore.tla + replay of every state/transition into the library (spec -> implementation conformance)",
     text="CifStore.tla is checked exhaustively by TLC within small constants (data-model invariants, isolation and scalar-category action properties). Every distinct state's history, every state-preserving call in that state and every state-changing transition is then executed against the library built from /repo, comparing result codes, outputs and the full SQL projection of the stored content with the specification's prediction. Right level: the property quantifies over API histories; the bounded graph is covered completely instead of by a script.",
     note="Bounded universes (2-3 spellings per kind, <=2 CIFs, <=3 containers, depth <=6 calls after a populating script); spelling semantics (case folding / normalisation) by three concretisation tables; sanitizers trusted for memory errors; ids / loop numbers / row numbers compared as drift only.", ref="4 C04"),
 "C05": dict(cat="model_checking", engine="tlc+replay", technique="TLC model checking of CifStore.tla (FailedCallAtomic) + replay of every refused call followed by a full state comparison and a continuing valid call",
     text="Every call the specification refuses in a reachable state (offending name first/middle/last in three-name loops, foreign item first/last in packets, duplicate/invalid codes, reserved category, scalar second packet, stale handles) is executed against the library; the projection of the whole CIF must equal the state before, and each state-changing transition of that state is replayed after the refused calls and must lead to the predicted successor.",
     note="Same bounds as C04; inside an open iterator only iterator calls are exercised (everything else is documented as undefined).", ref="4 C05"),
 "C06": dict(cat="model_checking", engine="tlc+replay", technique="TLC model checking of the iterator life cycle in CifStore.tla + replay of all call sequences into the library",
     text="All sequences of next / update / remove / close / abort (and the surrounding ordinary calls) up to the stated depth on a 2-item x 3-packet loop, a 1-packet loop and the scalar loop are enumerated by TLC; each is replayed and delivered packets, result codes, the content seen by SQL during the iteration and the content after close/abort are compared with the specification.",
     note="Loops of <= 3 packets; delivery order is compared with the row order the implementation uses (drift if it differs but stays a permutation).", ref="4 C06"),
 "C14": dict(cat="model_checking", engine="tlc+replay", technique="TLC enumeration of all handler programs in CifWalk.tla (traversal properties checked on each) + replay of every program through cif_walk + TLC acceptor for differing logs",
     text="CifWalk.tla mirrors cif_walk / walk_container / walk_loops / walk_loop / walk_packet one to one over a constant CIF tree with a scripted handler. TLC enumerates every handler program (continue, skip-current, skip-siblings, end, error codes 10 and 1 at every callback) on nine small shapes and checks AtMostOnce, ContinueVisitsAll, StopIsFinal, SkipSuppressesDescendants, SkipSiblingsSuppressesLater, NothingElseSuppressed on each; every program is then run through the real cif_walk with handle queries inside each callback and the callback log and return code compared; a differing log is re-validated by TLC in the module's acceptor mode, which leaves open exactly what the property leaves open.",
     note="Shapes are bounded (<= 2 blocks, frames nested to depth 2, <= 2 loops, <= 3 packets, <= 2 items); sibling orders are learned from an all-continue walk of the same CIF.", ref="4 C14"),
 "C15": dict(cat="model_checking", engine="tlc+replay", technique="TLC enumeration of all handler programs in CifParseEvents.tla (skip-depth balance and callback/storage properties checked on each) + replay through cif_parse in storing and syntax-only mode",
     text="CifParseEvents.tla transcribes the handler protocol of parse_cif / parse_container / parse_item / parse_loop / parse_loop_packets including the skip_depth counter. TLC enumerates every handler program on eight small documents and checks Balanced, ContinueStoresAll, StopIsFinal, StoredWasAccepted, AcceptedIsStored, SkippedAreSilentAndUnstored; every program is replayed through cif_parse twice (target CIF / syntax-only) and the callback log, the return code, the equality of the two modes' sequences and the stored content (SQL projection) are compared with the prediction.",
     note="Documents are small and plainly laid out; handler answers {0,-1,-2,-3,10}; in quick tier at most 5000 programs per document are replayed (seeded sample).", ref="4 C15"),
 "C20": dict(cat="model_checking", engine="tlc-trace", technique="TLC evaluation of CifErrlist.tla on the table observed from the library (exhaustive over the codes of cif.h)",
     text="The result codes are read from cif.h at check time, the table is dumped from the library built from /repo, and TLC checks for every code: inside the table, non-empty, describes the condition (keyword alternatives), not shared with another code. Exhaustive over a finite set.",
     note="The keyword alternatives in CifErrlist.tla define what 'describes that very condition' means.", ref="4 C20"),
}
TODO = {}
ALL = ["C%02d" % i for i in range(1, 21)]

def main():
    checks = []
    for pid in ALL:
        if pid not in CLAIMED:
            continue
        c = CLAIMED[pid]
        checks.append({
            "property_id": pid,
            "quick_cmd": "tools/vcheck %s --tier quick" % pid,
            "thorough_cmd": "tools/vcheck %s --tier thorough" % pid,
            "evidence_file": "/verif/evidence/%s.json" % pid,
            "replay_cmd_template": "tools/vcheck %s --replay {path}" % pid,
            "engine": c["engine"],
            "level_claimed": {"category": c["cat"], "text": c["text"], "design_ref": "DESIGN.md section " + c["ref"]},
            "level_note": c["note"],
            "technique": c["technique"],
        })
    na = [{"property_id": p, "reason": TODO.get(p, "check not built yet in this round (design in DESIGN.md section 4); nothing is claimed")} for p in ALL if p not in CLAIMED]
    m = {
        "version": 1,
        "setup_cmd": "harness/build.sh asan >/dev/null && harness/build.sh fault >/dev/null || true",
        "hooks": {"guard": "COMCIFS_CIF_API_VERIF", "enable": "harness/build.sh compiles /repo/src/*.c with -DCOMCIFS_CIF_API_VERIF (no source hook is needed so far: the guard is reserved)",
                  "baseline_off_cmd": "make -C /repo -k -j8 check", "source_commits": [], "add_only": True},
        "engines": [
            {"name": "tlc+replay", "path": "/verif/tools/vcheck", "serves_properties": [p for p in CLAIMED if CLAIMED[p]["engine"] == "tlc+replay"],
             "kind_free_text": "TLC model-checks a TLA+ module and emits behaviours with predicted outputs; harness/cifrun executes them on the library built from /repo (ASan+UBSan+LSan); tools compare"},
            {"name": "tlc-trace", "path": "/verif/tools/vcheck", "serves_properties": [p for p in CLAIMED if CLAIMED[p]["engine"] == "tlc-trace"],
             "kind_free_text": "observations recorded from the library are validated by TLC against a TLA+ trace specification"},
        ],
        "checks": checks,
        "not_applicable": na,
        "notes": "All checks rebuild the library from /repo's working tree (content-hash cache in /verif/.build). Exit 2 = the check itself broke (never a VIOLATION).",
    }
    with open(os.path.join(HERE, "MANIFEST.json"), "w") as f:
        json.dump(m, f, indent=1)
    print("claimed:", [c["property_id"] for c in checks])

if __name__ == "__main__":
    main()
