"""C19 (value objects: clone, lists, tables, packets, aliasing) and C07 (stored values read back identical):
CifValue.tla explored by TLC; every state's history, probes and transitions replayed into the library."""
import json, os, collections, random, re
from vlib import *

KIND = {"char": 0, "numb": 1, "list": 2, "table": 3, "na": 4, "unk": 5}
KEYC = {"k": "k", "K": "K", "e1": "é", "e2": "é", "bad": "\x01", "": ""}
NAMEC = {"_x": "_x", "_X": "_X", "_y": "_y", "_Y": "_Y", "bad": "x"}


SCALAR_TEXTS = ["a", "", "?", ".", "12", "1.5(2)", "data_x", "$v", "_n", "a b", "a[b", "{}", "a[ b"]


def exp_val(v):
    k = v["k"]
    if k == "char":
        return {"k": "char", "t": v["t"], "q": v["q"]}
    if k == "numb":
        return {"k": "numb", "t": v["t"], "q": v.get("q", 0)}
    if k == "list":
        return {"k": "list", "e": [exp_val(x) for x in v["e"]]}
    if k == "table":
        return {"k": "table", "e": sorted([[KEYC[x["key"]], exp_val(x["v"])] for x in v["e"]], key=lambda e: e[0])}
    return {"k": k}


def obs_val(v):
    if v is None:
        return None
    k = v.get("k")
    if k in ("char", "numb"):
        return {"k": k, "t": v.get("t"), "q": v.get("q", 0)}
    if k == "list":
        return {"k": "list", "e": [obs_val(x) for x in v.get("e", [])]}
    if k == "table":
        return {"k": "table", "e": sorted([[x[0], obs_val(x[1])] for x in v.get("e", [])], key=lambda e: e[0])}
    return {"k": k}


NUMRE = re.compile(r"^([+-]?)(\d*)(?:\.(\d*))?(?:[eE]([+-]?\d+))?(?:\((\d+)\))?$")


def numb_problem(v):
    """A number value's fields (digits, su digits, scale, sign) must be what its text denotes - wherever the value has been
    (cloned, stored, loaded).  Returns a description of the first inconsistent number inside dump v, or None."""
    if not isinstance(v, dict):
        return None
    k = v.get("k")
    if k == "numb" and v.get("dg") is not None:
        m = NUMRE.match(v.get("t") or "")
        if m:
            sign, ip, fp, ex, su = m.groups()
            digits = ((ip or "") + (fp or "")).lstrip("0") or "0"
            scale = len(fp or "") - int(ex or 0)
            got_d = (v.get("dg") or "").lstrip("0") or "0"
            exp_su = None if su is None else (su.lstrip("0") or "0")
            got_su = None if v.get("su") is None else ((v.get("su") or "").lstrip("0") or "0")
            if got_d != digits or v.get("sc") != scale or got_su != exp_su or (digits != "0" and (v.get("sg", 1) < 0) != (sign == "-")):
                return "number %r carries digits %r su %r scale %r sign %r" % (v.get("t"), v.get("dg"), v.get("su"), v.get("sc"), v.get("sg"))
    elif k == "list":
        for x in v.get("e", []):
            r = numb_problem(x)
            if r:
                return r
    elif k == "table":
        for x in v.get("e", []):
            r = numb_problem(x[1])
            if r:
                return r
    return None


def to_cmds(e):
    """log entry -> list of cifrun commands (the call, then forgetting references the call made dangling)"""
    op = e["op"]
    c = {"op": op}
    if op == "value_create":
        c.update(v=e["v"], kind=KIND[e["kind"]])
    elif op in ("value_free", "value_dump"):
        c["v"] = e["v"]
    elif op == "value_op":
        c.update(v=e["v"], f=e["f"])
        if "kind" in e: c["kind"] = KIND[e["kind"]]
        if "text" in e: c["text"] = e["text"]
        if "index" in e: c["index"] = e["index"]
        if "q" in e: c["q"] = e["q"]
        if "key" in e: c["key"] = KEYC[e["key"]]
        if e.get("arg") not in (None, "NULL"): c["arg"] = e["arg"]
        if e.get("out"): c["out"] = e["out"]
        if e.get("into"): c["into"] = 1
    elif op == "packet_create":
        c.update(p=e["p"], names=[NAMEC[n] for n in e["names"]])
    elif op == "packet_op":
        c.update(p=e["p"], f=e["f"])
        if "name" in e: c["name"] = NAMEC[e["name"]]
        if e.get("arg") not in (None, "NULL"): c["arg"] = e["arg"]
        if e.get("out"): c["out"] = e["out"]
    cs = [c]
    for r in e.get("drop", []):
        cs.append({"op": "forget_ref", "v": r})
    return cs


def compare(e, o):
    d = []
    if "err" in o:
        return ["harness: %s" % o]
    if "rc" in e and o.get("rc") != e["rc"]:
        d.append("%s %s: rc %s, specified %s" % (e["op"], e.get("f", ""), o.get("rc"), e["rc"]))
        return d
    f = e.get("f")
    if e["op"] == "value_dump":
        if obs_val(o.get("val")) != exp_val(e["val"]):
            d.append("value of %s is %s, specified %s" % (e["v"], json.dumps(obs_val(o.get("val")))[:200], json.dumps(exp_val(e["val"]))[:200]))
        elif numb_problem(o.get("val")):
            d.append("value of %s: %s" % (e["v"], numb_problem(o.get("val"))))
    elif f == "get_text" and (o.get("text") if e["has"] else "") != e["text"] or f == "get_text" and (o.get("text") is None) != (e["has"] == 0):
        d.append("get_text gives %r, specified %r" % (o.get("text"), e["text"] if e["has"] else None))
    elif f == "count" and e["rc"] == 0 and o.get("n") != e["n"]:
        d.append("count %s, specified %s" % (o.get("n"), e["n"]))
    elif f == "get_keys" and e["rc"] == 0 and sorted(o.get("keys", [])) != sorted(KEYC[k] for k in e["keys"]):
        d.append("keys %s, specified %s" % (o.get("keys"), [KEYC[k] for k in e["keys"]]))
    elif f == "get_names" and e["rc"] == 0:
        got = o.get("names", [])
        if got != [NAMEC[n] for n in e["names"]]:
            d.append("packet names %s, specified %s" % (got, [NAMEC[n] for n in e["names"]]))
    elif f == "dump" and e["op"] == "packet_op":
        got = sorted([[n, obs_val(v)] for n, v in o.get("pkt", [])], key=lambda x: x[0])
        exp = sorted([[NAMEC[n], exp_val(v)] for n, v in e["pkt"]], key=lambda x: x[0])
        if got != exp:
            d.append("packet %s, specified %s" % (json.dumps(got)[:200], json.dumps(exp)[:200]))
    return d


def final_cmds(s):
    cs = []
    for slot, v in sorted(s["roots"].items()):
        if v.get("k") != "none":
            cs.append(({"op": "value_dump", "v": slot}, ("root", slot, v)))
    for r, v in sorted(s["refs"].items()):
        if v.get("k") != "none":
            cs.append(({"op": "value_dump", "v": r}, ("ref", r, v)))
    if s["pk"]["on"]:
        cs.append(({"op": "packet_op", "p": "p1", "f": "dump"}, ("pk", "p1", s["pk"]["e"])))
    return cs


class VJob:
    def __init__(self, entries, state, nprobe):
        self.entries, self.state, self.nprobe = entries, state, nprobe
        self.cmds, self.owner = [], []
        for i, e in enumerate(entries):
            for j, c in enumerate(to_cmds(e)):
                self.cmds.append(c); self.owner.append(i if j == 0 else None)
        self.final = final_cmds(state)
        self.cmds += [c for c, _ in self.final] + [{"op": "reset"}]

    def check(self, outs):
        d = []
        if len(outs) < len(self.cmds):
            return ["execution stopped after %d of %d commands" % (len(outs), len(self.cmds))]
        for k, i in enumerate(self.owner):
            if i is not None:
                d += ["step %d %s" % (i + 1, x) for x in compare(self.entries[i], outs[k])]
            if "env_after" in outs[k]:
                d.append("environment changed by step %s" % i)
        base = len(self.owner)
        for k, (c, (kind, name, v)) in enumerate(self.final):
            o = outs[base + k]
            if kind == "pk":
                got = sorted([[n, obs_val(x)] for n, x in o.get("pkt", [])], key=lambda x: x[0])
                exp = sorted([[NAMEC.get(n, n), exp_val(x)] for n, x in v], key=lambda x: x[0])
            else:
                got, exp = obs_val(o.get("val")), exp_val(v)
            if got != exp:
                d.append("final %s %s is %s, specified %s" % (kind, name, json.dumps(got)[:200], json.dumps(exp)[:200]))
            else:
                np_ = numb_problem(o.get("val")) if kind != "pk" else next((numb_problem(x) for n, x in o.get("pkt", []) if numb_problem(x)), None)
                if np_:
                    d.append("final %s %s: %s" % (kind, name, np_))
        if outs[-1].get("leak"):
            d.append("memory leaked (LeakSanitizer)")
        return d


def run_vjobs(binary, jobs, batch=60):
    def run_batch(js):
        res = []
        todo = list(js)
        while todo:
            cmds, spans = [], []
            for j in todo:
                spans.append((len(cmds), len(cmds) + len(j.cmds)))
                cmds += j.cmds
            r = run_cifrun(binary, cmds, timeout=600)
            done = 0
            for j, (a, b) in zip(todo, spans):
                if b <= len(r.outs):
                    res.append((j, j.check(r.outs[a:b]), None)); done += 1
                else:
                    break
            if done == len(todo):
                break
            j = todo[done]
            a, b = spans[done]
            step = len(r.outs) - a
            i = j.owner[step] if step < len(j.owner) else None
            what = j.entries[i] if i is not None else {"op": "final dump"}
            res.append((j, ["abnormal termination (%s) at %s %s" % ("timeout" if r.timed_out else sanitizer_signature(r.stderr), what.get("op"), what.get("f", ""))], r.stderr))
            todo = todo[done + 1:]
        return res
    out = []
    for r in pmap(run_batch, [jobs[i:i + batch] for i in range(0, len(jobs), batch)]):
        out += r
    return out


def value_cfg(p):
    q = lambda xs: "{" + ", ".join('"%s"' % x for x in xs) + "}"
    return ("SPECIFICATION Spec\nCONSTANTS\n SLOTS <- %s\n REFS <- %s\n TEXTS = %s\n NUMTEXTS = %s\n KEYS = %s\n PNAMES = %s\n KINDS = %s\n QUOTES = %s\n GETNUM = %s\n Class <- MCClass\n MaxList = %d\n MaxEntries = %d\n MaxDepth = %d\n MaxHist = %d\n"
            " CanonK <- MCCanonK\n FoldN <- MCFoldN\nVIEW View\nINVARIANT EmitState\nACTION_CONSTRAINT EmitEdge\nINVARIANT Model\nPROPERTY CloneEqual OthersIntact\nCHECK_DEADLOCK FALSE\n"
            % (p["slots"], p["refs"], q(p["texts"]), q(p.get("numtexts", [])), q(p["keys"]), q(p["pnames"]), q(p["kinds"]), "{" + ", ".join(str(x) for x in p.get("quotes", [])) + "}", q(p.get("getnum", [])), p["maxlist"], p["maxentries"], p["maxdepth"], p["maxhist"]))


def shrink_v(binary, job):
    if job.nprobe == 0:
        return job
    npre = len(job.entries) - job.nprobe
    pre, probes = job.entries[:npre], job.entries[npre:]
    def fails(ps):
        j = VJob(pre + ps, job.state, len(ps))
        return bool(run_vjobs(binary, [j], batch=1)[0][1])
    if fails([]):
        return VJob(pre, job.state, 0)
    cur = probes
    while len(cur) > 1:
        h = len(cur) // 2
        if fails(cur[:h]): cur = cur[:h]
        elif fails(cur[h:]): cur = cur[h:]
        else: break
    return VJob(pre + cur, job.state, len(cur))


def c19(tier, replay=None):
    rep = Report("C19", tier, "model_checking")
    binary = build("asan")
    rnd = random.Random(SEED)
    base = dict(slots="Slots2", refs="Refs1", texts=["a"], keys=["k", "e1", "e2", "bad"], pnames=["_x", "_X", "bad"], kinds=["char", "list", "table", "unk"], maxlist=2, maxentries=2, maxdepth=2, maxhist=4)
    if tier == "quick":
        plans = [("lists-tables-d4", dict(base)),
                 ("numbers-d4", dict(base, kinds=["char", "list"], keys=["k"], pnames=["_x"], numtexts=["1.5(2)", "-3e2"], maxhist=4)),
                 ("packets-d4", dict(base, kinds=["char", "list"], keys=["k"], pnames=["_x", "_X", "_y", "bad"], maxhist=4, refs="Refs1", slots="Slots2")),
                 # longer lists of distinguishable members, so that inserting a list into itself (or setting a member to the
                 # list that holds it) below its end is within the bounds
                 ("self-d5", dict(base, kinds=["list", "char"], keys=["k"], pnames=["_x"], texts=["a"], maxlist=3, maxentries=1, maxdepth=2, maxhist=5, refs="Refs1", slots="Slots2")),
                 ("scalars-d3", dict(base, slots="Slots1", kinds=["char", "numb", "list", "na", "unk"], keys=["k"], pnames=["_x"], texts=SCALAR_TEXTS, quotes=[0, 1], getnum=["get_number", "get_su"], maxlist=1, maxhist=3)),
                 # one step deeper on strings alone: give a text, change its quoting, give the same / another text again
                 ("strings-d4", dict(base, slots="Slots1", kinds=["char"], keys=["k"], pnames=["_x"], texts=["a", "12", "a b"], quotes=[0, 1], getnum=["get_number"], maxlist=1, maxhist=4))]
    else:
        plans = [("numbers-d5", dict(base, kinds=["char", "list", "table"], keys=["k"], pnames=["_x"], numtexts=["1.5(2)", "-3e2"], maxhist=5)),
                 ("lists-tables-d5", dict(base, maxhist=5, slots="Slots3", refs="Refs2", keys=["k", "K", "e1", "e2", "bad"], kinds=["char", "numb", "list", "table", "na", "unk"])),
                 ("growth-d7", dict(base, kinds=["list", "char"], keys=["k"], pnames=["_x"], maxlist=5, maxhist=7, refs="Refs1", slots="Slots2")),
                 ("packets-d5", dict(base, kinds=["char", "list"], keys=["k"], pnames=["_x", "_X", "_y", "bad"], maxhist=5)),
                 ("scalars-d4", dict(base, slots="Slots2", kinds=["char", "numb", "list", "table", "na", "unk"], keys=["k"], pnames=["_x"], texts=SCALAR_TEXTS, quotes=[0, 1], getnum=["get_number", "get_su"], maxlist=1, maxhist=4))]
    covs = []
    tstates = ttrans = tok = 0
    opcov = collections.Counter()
    for name, p in plans:
        out, st, wd = run_tlc("MCValue", value_cfg(p), "value-" + name, timeout=3000)
        if not st["ok"]:
            cleanup(wd); raise Infra("TLC failed on CifValue %s: %s" % (name, st["error"][:1500]))
        tstates += st["distinct"]; ttrans += st["generated"]
        jobs, seen = [], set()
        edges = []
        for tag, o in iter_tlc_json(out, ("STATE", "EDGE")):
            if tag == "STATE":
                probes = sorted(o["probes"], key=lambda e: json.dumps(e, sort_keys=True))
                rnd.shuffle(probes)
                seen.add(json.dumps(o["h"], sort_keys=True))
                for e in o["h"] + probes:
                    opcov["%s:%s:%s" % (e["op"], e.get("f", ""), e.get("rc", "-"))] += 1
                jobs.append(VJob(o["h"] + probes, o["s"], len(probes)))
            else:
                edges.append(o)
        cleanup(wd)
        for o in edges:
            if json.dumps(o["h"], sort_keys=True) not in seen:
                jobs.append(VJob(o["h"], o["s"], 0))
        cap = 25000 if tier == "quick" else 60000
        if len(jobs) > cap:
            jobs = rnd.sample(jobs, cap)
        results = run_vjobs(binary, jobs)
        bad = [(j, d, err) for j, d, err in results if d]
        per = collections.Counter()
        for j, d, err in bad:
            psig = re.sub(r"step \d+ ", "", re.sub(r"\d+", "N", d[0]))[:80]
            per[psig] += 1
            if per[psig] > 2 or len(per) > 10:
                continue
            if SUBRUN:
                continue
            jj = shrink_v(binary, j)
            dd = run_vjobs(binary, [jj], batch=1)[0]
            if not dd[1]:
                continue
            sig = re.sub(r"step \d+ ", "", re.sub(r" is .*", "", dd[1][0]))[:90]
            rep.violation(sig, "; ".join(dd[1][:3]), {"commands": jj.cmds, "entries": jj.entries, "stderr": (dd[2] or "")[:2500]})
        ok = len(results) - len(bad)
        tok += ok
        covs.append({"config": name, "tlc": {k: st[k] for k in ("generated", "distinct", "wall_s")}, "jobs": len(jobs), "replayed_ok": ok, "calls": sum(len(j.entries) for j in jobs)})
        log("[C19 %s] states %d jobs %d ok %d" % (name, st["distinct"], len(jobs), ok))
        if not rep.samples and jobs:
            j = jobs[len(jobs) // 2]
            rep.samples.append({"history": j.cmds[:10]})
    return rep.finish({"states": tstates, "transitions": ttrans, "traces_validated_against_impl": tok, "configs": covs, "distinct_call_outcomes": len(opcov),
                       "call_outcomes": dict(sorted(opcov.items())), "exhaustive": True,
                       "explanation": "all states of CifValue.tla within the constants: each state's history + every state-preserving call, and every transition, replayed; every root, live reference and the packet dumped and compared after each history; ASan/LSan observe sharing, premature frees and leaks"},
                      ["interior references that a call makes dangling are forgotten by the harness (using them would violate the documented preconditions)"])


# ------------------------------------------------------------------------------------------------ C07
def conc_tree(v):
    """model tree -> cifrun value JSON (keys in their concrete spelling)"""
    k = v["k"]
    if k == "char":
        return {"k": "char", "t": v["t"], "q": v["q"]}
    if k == "numb":
        return {"k": "numb", "t": v["t"]}
    if k == "list":
        return {"k": "list", "e": [conc_tree(x) for x in v["e"]]}
    if k == "table":
        return {"k": "table", "e": [[KEYC[x["key"]], conc_tree(x["v"])] for x in v["e"]]}
    return {"k": k}


def full(v):
    """dump with numeric detail, tables keyed by spelling"""
    if v is None:
        return None
    k = v.get("k")
    if k == "char":
        return {"k": k, "t": v.get("t"), "q": v.get("q")}
    if k == "numb":
        return {"k": k, "t": v.get("t"), "q": v.get("q"), "dg": v.get("dg"), "su": v.get("su"), "sc": v.get("sc"), "d": v.get("d")}
    if k == "list":
        return {"k": k, "e": [full(x) for x in v.get("e", [])]}
    if k == "table":
        return {"k": k, "e": sorted([[x[0], full(x[1])] for x in v.get("e", [])], key=lambda e: e[0])}
    return {"k": k}


WRITES = ["set_value", "add_item", "add_packet", "itr_update"]
READS = ["get_value", "iterate", "walk"]


SIMPLE = re.compile(r"^[A-Za-z][A-Za-z0-9]*$")


def simple_text(v):
    """CIF 2.0 text of a value whose strings need no thought about delimiters (None otherwise)"""
    k = v.get("k")
    if k == "na": return "."
    if k == "unk": return "?"
    if k == "numb":
        return v["t"] if not v.get("q") and NUMRE.match(v["t"]) and re.search(r"\d", v["t"]) else None
    if k == "char":
        t = v.get("t", "")
        if not SIMPLE.match(t) or t.lower().startswith(("data", "save", "loop", "stop", "global")):
            return None
        return "'%s'" % t if v.get("q") else t
    if k == "list":
        parts = [simple_text(x) for x in v.get("e", [])]
        return None if any(p is None for p in parts) else "[" + " ".join(parts) + "]"
    if k == "table":
        parts = []
        for key, x in v.get("e", []):
            tx = simple_text(x)
            if tx is None or not key or any(c in key for c in "'\"\n\r") :
                return None
            parts.append("'%s':%s" % (key, tx))
        return "{" + " ".join(parts) + "}"
    return None


def route_cmds(val, w, r):
    cs = [{"op": "cif_create", "cif": "c"}, {"op": "create_block", "cif": "c", "code": "b", "h": "h"}, {"op": "value_build", "v": "v0", "val": val},
          {"op": "value_dump", "v": "v0"}]
    if w == "set_value":
        cs.append({"op": "set_value", "cont": "h", "name": "_V", "vh": "v0"})
    elif w == "add_item":
        cs += [{"op": "create_loop", "cont": "h", "category": "k", "names": ["_a"], "h": "l"}, {"op": "loop_add_packet", "loop": "l", "packet": [["_a", {"k": "numb", "t": "1"}]]},
               {"op": "loop_add_item", "loop": "l", "name": "_V", "vh": "v0"}]
    elif w == "add_packet":
        cs += [{"op": "create_loop", "cont": "h", "category": "k", "names": ["_V", "_a"], "h": "l"}, {"op": "packet_create", "p": "p", "names": ["_a"]},
               {"op": "packet_op", "p": "p", "f": "set", "name": "_V", "arg": "v0"}, {"op": "loop_add_packet", "loop": "l", "ph": "p"},
               {"op": "packet_op", "p": "p", "f": "set", "name": "_V"}, {"op": "packet_op", "p": "p", "f": "free"}]
    elif w == "itr_update":
        # the item already holds another value, which the update has to replace (also by the unknown value)
        cs += [{"op": "create_loop", "cont": "h", "category": "k", "names": ["_V", "_a"], "h": "l"}, {"op": "loop_add_packet", "loop": "l", "packet": [["_a", {"k": "na"}], ["_V", {"k": "char", "t": "previous", "q": 1}]]},
               {"op": "get_packets", "loop": "l", "itr": "i"}, {"op": "itr_next", "itr": "i", "want": 0}, {"op": "packet_create", "p": "p", "names": []},
               {"op": "packet_op", "p": "p", "f": "set", "name": "_v", "arg": "v0"}, {"op": "itr_update", "itr": "i", "ph": "p"}, {"op": "itr_close", "itr": "i"},
               {"op": "packet_op", "p": "p", "f": "free"}]
    elif w == "parse":
        # the parser as the storing route: the value is the SECOND packet of a one-column loop whose first packet is another
        # list (the parser re-uses one value object per column)
        cs.append({"op": "parse", "cif": "c", "errors": "accept", "text": "#\\#CIF_2.0\ndata_p\nloop_\n_V\n[zz 'q' [1]]\n%s\n" % simple_text(val)})
        cs.append({"op": "get_block", "cif": "c", "code": "p", "h": "h"})
    nwrite = len(cs)
    # the caller's object is changed and released: the stored copy must not notice
    cs += [{"op": "value_op", "v": "v0", "f": "copy_char", "text": "MUTATED"}, {"op": "value_free", "v": "v0"}]
    if w == "parse":
        cs += [{"op": "get_item_loop", "cont": "h", "name": "_v", "h": "l2"}, {"op": "get_packets", "loop": "l2", "itr": "j"}, {"op": "itr_next", "itr": "j"}, {"op": "itr_next", "itr": "j"}, {"op": "itr_abort", "itr": "j"}]
    elif r == "get_value":
        cs.append({"op": "get_value", "cont": "h", "name": "_v"})
    elif r == "iterate":
        cs += [{"op": "get_item_loop", "cont": "h", "name": "_v", "h": "l2"}, {"op": "get_packets", "loop": "l2", "itr": "j"}, {"op": "itr_next", "itr": "j"}, {"op": "itr_abort", "itr": "j"}]
    else:
        cs.append({"op": "walk", "cif": "c", "script": []})
    cs.append({"op": "reset"})
    return cs, nwrite


def c07(tier, replay=None):
    rep = Report("C07", tier, "model_checking")
    binary = build("asan")
    rnd = random.Random(SEED)
    p = dict(slots="Slots2", refs="Refs1", texts=["a"], keys=["k", "K", "e1", "e2"], pnames=["_x"], kinds=["char", "numb", "list", "table", "na", "unk"],
             maxlist=2, maxentries=2, maxdepth=2, maxhist=5 if tier == "quick" else 6)
    out, st, wd = run_tlc("MCValue", value_cfg(p).replace("ACTION_CONSTRAINT EmitEdge\n", ""), "value-c07", timeout=3000)
    if not st["ok"]:
        cleanup(wd); raise Infra("TLC failed on CifValue (C07): " + st["error"][:1200])
    trees = {}
    for tag, o in iter_tlc_json(out, ("STATE",)):
        for slot, v in o["s"]["roots"].items():
            if v.get("k") != "none":
                trees.setdefault(json.dumps(v, sort_keys=True), v)
    cleanup(wd)
    vals = [conc_tree(v) for v in trees.values()]
    nmodel = len(vals)
    # texts, numbers and sizes beyond the model's bounds (driver-generated)
    extra = [{"k": "char", "t": t, "q": q} for t in ("", " ", "a b", "?", ".", "1.5(2)", "line1\nline2", "\n", "it's \"q\"", "é€𝄞", "\\", ";x", "data_x", "x" * 255, "x" * 256, "y" * 511, "y" * 512, "z" * 513, "w" * 4096, "v" * 70000) for q in (1,)]
    extra += [{"k": "char", "t": t, "q": 0} for t in ("abc", "1.5", "a'b", ";x", "é", "x" * 600)]
    extra += [{"k": "numb", "t": t} for t in ("0", "1", "-1", "+1.50", "1.5(2)", "-3e2", ".5", "5.", "1.234E-10(12)", "0.000", "00012", "1e400", "1e-400", "123456789012345678901234567890", "1.0000000000000000000000001(3)", "-0", "6.02214076e23")]
    extra += [{"k": "list", "e": []}, {"k": "table", "e": []}, {"k": "list", "e": [{"k": "numb", "t": "%d" % i} for i in range(4)]}, {"k": "list", "e": [{"k": "numb", "t": "%d" % i} for i in range(5)]},
              {"k": "list", "e": [{"k": "char", "t": "e%d" % i, "q": 1} for i in range(1000)]}, {"k": "table", "e": [["key %d" % i, {"k": "numb", "t": str(i)}] for i in range(200)]},
              {"k": "table", "e": [["", {"k": "na"}], [" lead", {"k": "unk"}], ["é", {"k": "char", "t": "nfc", "q": 1}], ["K", {"k": "numb", "t": "1"}], ["k", {"k": "numb", "t": "2"}]]},
              {"k": "table", "e": [["é", {"k": "char", "t": "nfd spelling", "q": 1}]]},
              {"k": "list", "e": [{"k": "char", "t": "s" * 600, "q": 1}, {"k": "table", "e": [["k" * 300, {"k": "list", "e": [{"k": "char", "t": "t" * 700, "q": 1}]}]]}]}]
    # every kind of leaf, with both quoting states, at every kind of position (scalar, list member, table member, nested):
    # scalars travel through the columns of item_value, members through the serialised form
    leaves = [{"k": "char", "t": "txt", "q": 1}, {"k": "char", "t": "bare", "q": 0}, {"k": "numb", "t": "1.50"}, {"k": "numb", "t": "1.50", "q": 1},
              {"k": "numb", "t": "-2.5e3(12)", "q": 1}, {"k": "char", "t": "1.50", "q": 1}, {"k": "char", "t": "1.50", "q": 0}, {"k": "na"}, {"k": "unk"}]
    for lf in leaves:
        extra += [lf, {"k": "list", "e": [lf]}, {"k": "table", "e": [["Key", lf]]}, {"k": "list", "e": [{"k": "list", "e": [lf, lf]}]}, {"k": "table", "e": [["Nested", {"k": "list", "e": [lf]}], ["t", {"k": "table", "e": [["u", lf]]}]]}]
    deep = {"k": "numb", "t": "7"}
    for i in range(40):
        deep = {"k": "list", "e": [deep]} if i % 2 else {"k": "table", "e": [["d%d" % i, deep]]}
    extra.append(deep)
    vals += extra
    cases = [(vi, w, r) for vi in range(len(vals)) for w in WRITES for r in READS]
    # the parser as a storing route, for the values that are easily written down
    pcases = [(vi, "parse", "iterate") for vi in range(len(vals)) if vals[vi].get("k") in ("list", "table") and simple_text(vals[vi]) is not None]
    if tier == "quick":
        rnd.shuffle(pcases); pcases = pcases[:600]
    if tier == "quick" and len(cases) > 9000:
        keep = [c for c in cases if c[0] >= nmodel]
        rest = [c for c in cases if c[0] < nmodel]
        rnd.shuffle(rest)
        cases = keep + rest[:9000 - len(keep)]
    cases += pcases

    def run_chunk(ch):
        cmds, spans = [], []
        for vi, w, r in ch:
            cs, nw = route_cmds(vals[vi], w, r)
            spans.append((len(cmds), len(cmds) + len(cs), nw))
            cmds += cs
        return ch, spans, run_cifrun(binary, cmds, timeout=900)
    nok = 0
    for ch, spans, rr in pmap(run_chunk, [cases[i:i + 120] for i in range(0, len(cases), 120)]):
        for (vi, w, r), (a, b, nw) in zip(ch, spans):
            if b > len(rr.outs):
                if a <= len(rr.outs):
                    rep.violation("abnormal termination %s (%s -> %s)" % (sanitizer_signature(rr.stderr), w, r), "did not return: value %s" % json.dumps(vals[vi])[:200], {"value": vals[vi] if len(json.dumps(vals[vi])) < 5000 else "(large)", "write": w, "read": r, "stderr": rr.stderr[:3000]})
                continue
            o = rr.outs[a:b]
            orig = full(o[3].get("val"))
            problems = []
            for x in o[4:nw]:
                if x.get("rc", 0) != 0:
                    problems.append("%s rc %s" % (x.get("op"), x.get("rc")))
            got = None
            if r == "get_value":
                g = o[nw + 2]
                if g.get("rc") != 0: problems.append("get_value rc %s" % g.get("rc"))
                got = full(g.get("v"))
            elif r == "iterate":
                g = o[nw + 5] if w == "parse" else o[nw + 4]
                if g.get("rc") != 0: problems.append("itr_next rc %s" % g.get("rc"))
                got = next((full(v) for n, v in g.get("pkt", []) if n == "_v"), None)
                if w == "parse":
                    # what the parser reads whitespace-delimited is a number only on demand: a number and an unquoted
                    # string with the same text are the same value (C01)
                    def same(v):
                        if isinstance(v, dict):
                            if v.get("k") == "numb" and not v.get("q"):
                                return {"k": "char", "t": v.get("t"), "q": 0}
                            return {k2: same(x) for k2, x in v.items()}
                        if isinstance(v, list):
                            return [same(x) for x in v]
                        return v
                    orig, got = same(orig), same(got)
            else:
                g = o[nw + 2]
                it = [e for e in g.get("log", []) if e.get("cb") == "item" and e.get("name") == "_v"]
                got = full(it[0]["v"]) if it else None
                if orig is not None and got is not None:
                    # the walk dump carries no numeric detail
                    def strip(v):
                        if isinstance(v, dict):
                            return {k2: strip(x) for k2, x in v.items() if k2 not in ("dg", "su", "sc", "d")}
                        if isinstance(v, list):
                            return [strip(x) for x in v]
                        return v
                    orig2, got = strip(orig), strip(got)
                    if got != orig2: problems.append("walk presents %s, stored %s" % (json.dumps(got)[:200], json.dumps(orig2)[:200]))
                    got = orig
            if got != orig:
                problems.append("read back %s, stored %s" % (json.dumps(got)[:300], json.dumps(orig)[:300]))
            if o[-1].get("leak"):
                problems.append("memory leaked (LeakSanitizer)")
            if any("env_after" in x for x in o):
                problems.append("process environment changed")
            if problems:
                kind = vals[vi].get("k")
                rep.violation("%s via %s -> %s: %s" % (kind, w, r, re.sub(r"[0-9]+", "N", problems[0])[:60]), "value %s: %s" % (json.dumps(vals[vi])[:200], "; ".join(problems[:3])),
                              {"value": vals[vi] if len(json.dumps(vals[vi])) < 5000 else "(large)", "write": w, "read": r})
            else:
                nok += 1
    # reads while memory is short: each allocation of the reading call fails in turn; a read that nevertheless reports
    # success must present the stored value, all of it (what the call reports when it fails is C17's subject)
    fbin = build("fault")
    short = [v for v in extra if v.get("k") == "numb" or (v.get("k") in ("list", "table") and 0 < len(v.get("e", [])) <= 5)] + leaves
    short += [{"k": "char", "t": "x" * 600, "q": 1}, {"k": "char", "t": "", "q": 1}]
    short = list({json.dumps(v, sort_keys=True): v for v in short}.values())
    if tier == "quick":
        short = short[:60]
    KMAX = 14 if tier == "quick" else 30
    def run_short(ch):
        cmds, spans = [], []
        for v in ch:
            cs = [{"op": "cif_create", "cif": "c"}, {"op": "create_block", "cif": "c", "code": "b", "h": "h"}, {"op": "value_build", "v": "v0", "val": v}, {"op": "value_dump", "v": "v0"},
                  {"op": "set_value", "cont": "h", "name": "_V", "vh": "v0"},
                  {"op": "create_loop", "cont": "h", "category": "k", "names": ["_a"], "h": "l"}, {"op": "loop_add_packet", "loop": "l", "packet": [["_a", {"k": "na"}]]},
                  {"op": "loop_add_item", "loop": "l", "name": "_w", "vh": "v0"}, {"op": "value_free", "v": "v0"}]
            for k in range(1, KMAX + 1):
                cs.append({"op": "get_value", "cont": "h", "name": "_v", "fail_at": k, "fail_kinds": 1})
            for k in range(1, KMAX + 1):
                cs += [{"op": "get_packets", "loop": "l", "itr": "j"}, {"op": "itr_next", "itr": "j", "fail_at": k, "fail_kinds": 1}, {"op": "itr_abort", "itr": "j"}]
            cs.append({"op": "reset"})
            spans.append((len(cmds), len(cmds) + len(cs))); cmds += cs
        return ch, spans, run_cifrun(fbin, cmds, timeout=900)
    nshort = nshort_ok = nfired_ok = 0
    for ch, spans, rr in pmap(run_short, [short[i:i + 10] for i in range(0, len(short), 10)]):
        for v, (a, b) in zip(ch, spans):
            if b > len(rr.outs):
                if a <= len(rr.outs):
                    rep.violation("abnormal termination %s (read while memory is short)" % sanitizer_signature(rr.stderr), "did not return: value %s" % json.dumps(v)[:200], {"value": v, "stderr": rr.stderr[:3000]})
                continue
            o = rr.outs[a:b]
            orig = full(o[3].get("val"))
            if any(x.get("rc", 0) != 0 for x in o[4:8]):
                raise Infra("C07 reads while memory is short: could not store %s: %s" % (json.dumps(v)[:100], json.dumps(o[4:8])[:300]))
            for x in o[9:]:
                if x.get("op") not in ("get_value", "itr_next") or "fired" not in x:
                    continue
                nshort += 1
                if x.get("rc") != 0:
                    continue
                got = full(x.get("v")) if x["op"] == "get_value" else next((full(y) for n, y in x.get("pkt", []) if n == "_w"), None)
                if got != orig:
                    rep.violation("%s via %s while memory is short: read back differs" % (v.get("k"), x["op"]),
                                  "value %s: %s reports success%s and presents %s, stored %s" % (json.dumps(v)[:200], x["op"], (" (allocation %d at %s failed)" % (x.get("allocs", 0), x.get("site"))) if x.get("fired") else "",
                                                                                      json.dumps(got)[:300], json.dumps(orig)[:300]), {"value": v, "read": x["op"], "site": x.get("site")})
                else:
                    nshort_ok += 1
                    nfired_ok += 1 if x.get("fired") else 0
    rep.samples = [{"value": vals[i], "routes": "x".join([WRITES[i % 4], READS[i % 3]])} for i in (1, nmodel // 2, nmodel + 3)]
    log("[C07] values %d (model %d + sizes %d), cases %d ok %d; reads while memory is short %d (successful and identical %d, of which after a failed allocation %d)" % (len(vals), nmodel, len(extra), len(cases), nok, nshort, nshort_ok, nfired_ok))
    return rep.finish({"states": st["distinct"], "transitions": st["generated"], "traces_validated_against_impl": nok, "values_from_model": nmodel, "values_beyond_model_bounds": len(extra),
                       "write_routes": WRITES, "read_routes": READS, "cases": len(cases), "exhaustive": tier != "quick", "reads_while_memory_is_short": nshort,
                       "explanation": "every distinct value tree reachable in CifValue.tla within its bounds (depth 2, width 2, all kinds, key spellings) plus size classes beyond them, crossed with 4 write and 3 read routes; the caller's object is mutated and freed between write and read; the read-back (kind, text, quoted, digits, su, scale, double bits, order, keys in their spelling) must equal the object as it was when stored"},
                      ["the parse write-route is covered by C01 (documents with denotation); the oracle here is identity with the stored object's own attributes"])
