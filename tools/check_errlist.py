"""C20: the message table observed from the library, validated by TLC against CifErrlist.tla (codes read from cif.h now)."""
import json, os, re
from vlib import *

CFG = "SPECIFICATION Spec\nINVARIANT Report\nINVARIANT EveryCodeHasItsMessage\nCHECK_DEADLOCK FALSE\n"


def read_codes():
    src = open(os.path.join(REPO, "src", "cif.h"), encoding="utf-8", errors="replace").read()
    a = src.find("@defgroup return_codes")
    b = src.find("CIF_TRAVERSE_CONTINUE")
    grp = src[a:b] if a >= 0 and b > a else src
    grp = re.sub(r"/\*.*?\*/", "", grp, flags=re.S)          # defines inside comments are not defined
    codes = []
    for m in re.finditer(r"^[ \t]*#[ \t]*define[ \t]+(CIF_[A-Z0-9_]+)[ \t]+(\d+)[ \t]*$", grp, flags=re.M):
        name, n = m.group(1), int(m.group(2))
        words = [w.lower() for w in name.split("_")[1:] if w not in ("ERROR",)]
        codes.append({"name": name, "n": n, "words": words})
    return codes


def c20(tier, replay=None):
    rep = Report("C20", tier, "model_checking")
    binary = build("asan")
    codes = read_codes()
    if len(codes) < 30:
        raise Infra("could not read the result codes from cif.h (%d found)" % len(codes))
    r = run_cifrun(binary, [{"op": "errlist"}])
    if r.crashed or not r.outs or "msgs" not in r.outs[0]:
        raise Infra("cifrun could not dump cif_errlist: " + r.stderr[-500:])
    nerr, msgs = r.outs[0]["nerr"], r.outs[0]["msgs"]
    wd = scratch_dir("errlist")
    trace = os.path.join(wd, "trace.ndjson")
    with open(trace, "w") as f:
        f.write(json.dumps({"codes": codes, "nerr": nerr, "slot": int(r.outs[0].get("slot", 80)), "msgs": [m.lower() for m in msgs]}) + "\n")
    out, st, wd2 = run_tlc("CifErrlist", CFG, "errlist", workers=1, env={"TRACE": trace}, timeout=300)
    bad, count = None, 0
    for tag, o in iter_tlc_json(out, ("BAD", "COUNT")):
        if tag == "BAD":
            bad = o
        else:
            count = o["codes"]
    text = open(out, errors="replace").read()
    cleanup(wd); cleanup(wd2)
    if bad is None:
        raise Infra("TLC did not evaluate the trace: " + text[-1500:])
    if st["ok"] and bad:
        raise Infra("inconsistent TLC outcome")
    for c in bad:
        n = c["n"]
        got = msgs[n] if n < nerr else "(outside the table, cif_nerr = %d)" % nerr
        rep.violation("%s=%d" % (c["name"], n), "cif_errlist[%s] is %r" % (c["name"], got), {"code": c, "message": got, "table": msgs})
    rep.samples = [{"code": c["name"], "n": c["n"], "message": msgs[c["n"]] if c["n"] < nerr else None} for c in codes[:6]]
    return rep.finish({"states": max(st["distinct"], 1), "transitions": max(st["generated"], 1), "traces_validated_against_impl": 1,
                       "codes_checked": count, "codes_in_header": len(codes), "nerr": nerr, "exhaustive": True,
                       "evaluations": len(codes), "distinct_nontrivial": len(codes),
                       "rule": "every #define CIF_<NAME> <n> of the return-code group of cif.h (read at check time) against the table dumped from the library built from /repo"},
                      ["the keyword alternatives in CifErrlist.tla (Describes) state what each message must say"])
