"""C20: the message table observed from the library, validated by TLC against CifErrlist.tla (codes read from cif.h now)."""
import json, os, re
from vlib import *

CFG = "SPECIFICATION Spec\nINVARIANT Report\nINVARIANT EveryCodeHasItsMessage\nINVARIANT ReturnedValuesAreCodes\nCHECK_DEADLOCK FALSE\n"


def read_codes():
    src = open(os.path.join(REPO, "src", "cif.h"), encoding="utf-8", errors="replace").read()
    a = src.find("@defgroup return_codes")
    b = src.find("CIF_TRAVERSE_CONTINUE")
    grp = src[a:b] if a >= 0 and b > a else src
    grp = re.sub(r"/\*.*?\*/", "", grp, flags=re.S)          # defines inside comments are not defined
    codes = []
    for m in re.finditer(r"^[ \t]*#[ \t]*define[ \t]+(CIF_[A-Z0-9_]+)[ \t]+(\d+)[ \t]*$", grp, flags=re.M):
        name, n = m.group(1), int(m.group(2))
        words = [w.lower() for w in name.split("_")[1:] if w not in ("ERROR",)]
        codes.append({"name": name, "n": n, "words": words})
    return codes


DOC = "#\\#CIF_2.0\ndata_b1\n_a 1\nloop_ _x _y\n1 2\n3 4\nsave_f\n_c [1 {'k':2}]\nsave_\ndata_b2\n_d 'v'\n"
BAD_DOC = "#\\#CIF_2.0\ndata_b1\n_a 1\n_a 2\nloop_ _x\n_q\ndata_b1\n_z\n"


def returned_battery(tier):
    """Calls whose returned value an application would hand to cif_errlist: traversals and parses whose handlers answer
    with every navigation directive (or an error code) at every callback position, parses of a defective document under
    each error policy, and data-management calls that fail."""
    cmds, what = [], []
    def add(c, w):
        cmds.append(c); what.append(w)
    add({"op": "parse", "cif": "c", "text": DOC, "errors": "accept"}, None)
    ncb = 24
    answers = (-1, -2, -3, 5, 11) if tier == "quick" else (-1, -2, -3, 1, 2, 3, 5, 11, 23, 35)
    for k in range(ncb):
        for a in answers:
            add({"op": "walk", "cif": "c", "script": [0] * k + [a]}, "cif_walk, callback %d answers %d" % (k, a))
            add({"op": "parse", "text": DOC, "handler": 1, "script": [0] * k + [a], "errors": "accept"}, "cif_parse, callback %d answers %d" % (k, a))
    for omit in (["block_start"], ["item"], ["loop_start", "packet_start"], ["cif_start", "cif_end"]):
        for a in (-3, -2):
            add({"op": "walk", "cif": "c", "script": [0, 0, a], "omit": omit}, "cif_walk without %s, third callback answers %d" % ("/".join(omit), a))
    for pol in ("accept", "reject", "die", "ignore", "null"):
        add({"op": "parse", "text": BAD_DOC, "errors": pol}, "cif_parse of a defective document, error policy %s" % pol)
        add({"op": "parse", "cif": "d" + pol, "text": BAD_DOC, "errors": pol}, "cif_parse of a defective document into a CIF, error policy %s" % pol)
    for e in range(0, 8):
        add({"op": "parse", "text": BAD_DOC, "errors": "script", "escript": [0] * e + [7], "edefault": 0}, "cif_parse, error callback %d answers 7" % e)
    # inputs at the edges of the parser's start-up: nothing, a bare byte-order mark in each encoding form, a version comment
    # without a line, a byte-order mark and a version comment
    for label, hx in (("empty input", ""), ("a bare byte-order mark (UTF-8)", "efbbbf"), ("a bare byte-order mark (UTF-16LE)", "fffe"), ("a bare byte-order mark (UTF-16BE)", "feff"),
                      ("a bare byte-order mark (UTF-32LE)", "fffe0000"), ("a byte-order mark and a blank", "efbbbf20"), ("a version comment without a line end", b"#\\#CIF_2.0".hex()),
                      ("a byte-order mark and a version comment", "efbbbf" + b"#\\#CIF_2.0".hex()), ("a byte-order mark and a CIF 1.1 comment", "efbbbf" + b"#\\#CIF_1.1".hex()),
                      ("one byte", "23"), ("one line end", "0a"), ("a truncated UTF-8 sequence", "e2"), ("data_ alone", b"data_".hex())):
        for extra in ({}, {"cif": "e%d" % len(cmds)}, {"opts": {"prefer_cif2": 1}}, {"opts": {"prefer_cif2": -1}}):
            add(dict({"op": "parse", "hex": hx, "errors": "accept"}, **extra), "cif_parse of %s%s" % (label, "" if not extra else " (%s)" % ", ".join(sorted(extra))))
    # the input stream fails (EIO) after so many bytes
    big = "#\\#CIF_2.0\ndata_a\n" + "".join("_n%d %d\n" % (i, i) for i in range(2000))
    for n in (0, 3, 14, 4096, 5000, 8192, 12000):
        add({"op": "parse", "text": big, "errors": "accept", "ioerr_after": n}, "cif_parse, reading the input fails after %d bytes" % n)
        add({"op": "parse", "cif": "io%d" % n, "text": big, "errors": "accept", "ioerr_after": n}, "cif_parse into a CIF, reading the input fails after %d bytes" % n)
    add({"op": "create_block", "cif": "c", "code": "b1", "h": "h1"}, "cif_create_block, duplicate code")
    add({"op": "create_block", "cif": "c", "code": "b 3", "h": "h2"}, "cif_create_block, invalid code")
    add({"op": "get_block", "cif": "c", "code": "nope", "h": "h3"}, "cif_get_block, no such block")
    add({"op": "get_block", "cif": "c", "code": "b1", "h": "hb"}, None)
    add({"op": "create_frame", "cont": "hb", "code": "f", "h": "h4"}, "cif_container_create_frame, duplicate code")
    add({"op": "get_frame", "cont": "hb", "code": "zz", "h": "h5"}, "cif_container_get_frame, no such frame")
    add({"op": "get_value", "cont": "hb", "name": "_nope"}, "cif_container_get_value, no such item")
    add({"op": "get_value", "cont": "hb", "name": "_x"}, "cif_container_get_value, item with several values")
    add({"op": "set_value", "cont": "hb", "name": "no underscore", "v": {"k": "char", "t": "v"}}, "cif_container_set_value, invalid name")
    add({"op": "remove_item", "cont": "hb", "name": "_nope"}, "cif_container_remove_item, no such item")
    add({"op": "create_loop", "cont": "hb", "category": "c1", "names": ["_a"], "h": "l1"}, "cif_container_create_loop, duplicate item")
    add({"op": "create_loop", "cont": "hb", "category": "c1", "names": [], "h": "l2"}, "cif_container_create_loop, no names")
    add({"op": "create_loop", "cont": "hb", "category": "", "names": ["_s1"], "h": "l3"}, "cif_container_create_loop, reserved category")
    add({"op": "get_item_loop", "cont": "hb", "name": "_nope", "h": "l4"}, "cif_container_get_item_loop, no such item")
    add({"op": "get_category_loop", "cont": "hb", "category": "nope", "h": "l5"}, "cif_container_get_category_loop, no such loop")
    # loops, packet iterators, packets, values, writing, string utilities: the calls that are refused, and the iterator's
    # own statuses (CIF_FINISHED, CIF_MISUSE, CIF_EMPTY_LOOP, CIF_INVALID_HANDLE, CIF_WRONG_LOOP ...)
    one = {"k": "numb", "t": "1"}
    import struct
    hx = lambda d: "%016x" % struct.unpack("<Q", struct.pack("<d", d))[0]
    add({"op": "get_item_loop", "cont": "hb", "name": "_x", "h": "lx"}, None)
    add({"op": "get_item_loop", "cont": "hb", "name": "_a", "h": "ls"}, None)
    add({"op": "loop_add_packet", "loop": "lx", "packet": [["_nope", one]]}, "cif_loop_add_packet, item of no loop")
    add({"op": "loop_add_packet", "loop": "lx", "packet": [["_x", one], ["_a", one]]}, "cif_loop_add_packet, item of another loop")
    add({"op": "loop_add_packet", "loop": "lx", "packet": []}, "cif_loop_add_packet, empty packet")
    add({"op": "loop_add_packet", "loop": "ls", "packet": [["_a", one]]}, "cif_loop_add_packet, second packet for the scalar loop")
    add({"op": "loop_add_item", "loop": "lx", "name": "_y", "v": one}, "cif_loop_add_item, duplicate item")
    add({"op": "loop_add_item", "loop": "lx", "name": "bad name", "v": one}, "cif_loop_add_item, invalid name")
    add({"op": "loop_set_category", "loop": "lx", "category": ""}, "cif_loop_set_category, reserved category")
    add({"op": "loop_set_category", "loop": "ls", "category": "k"}, "cif_loop_set_category on the scalar loop")
    add({"op": "get_packets", "loop": "lx", "itr": "i1"}, None)
    add({"op": "itr_update", "itr": "i1", "packet": [["_x", one]]}, "cif_pktitr_update_packet before any packet")
    add({"op": "itr_remove", "itr": "i1"}, "cif_pktitr_remove_packet before any packet")
    add({"op": "itr_next", "itr": "i1"}, None)
    add({"op": "itr_update", "itr": "i1", "packet": [["_a", one]]}, "cif_pktitr_update_packet, item of another loop")
    add({"op": "itr_update", "itr": "i1", "packet": [["_nope", one]]}, "cif_pktitr_update_packet, item of no loop")
    add({"op": "get_packets", "loop": "lx", "itr": "i2"}, "cif_loop_get_packets while another iterator is open")
    add({"op": "set_value", "cont": "hb", "name": "_a", "v": one}, "cif_container_set_value while an iterator is open")
    add({"op": "itr_remove", "itr": "i1"}, None)
    add({"op": "itr_remove", "itr": "i1"}, "cif_pktitr_remove_packet twice")
    add({"op": "itr_update", "itr": "i1", "packet": [["_x", one]]}, "cif_pktitr_update_packet after remove")
    add({"op": "itr_next", "itr": "i1"}, None)
    add({"op": "itr_next", "itr": "i1"}, "cif_pktitr_next_packet after the last packet")
    add({"op": "itr_next", "itr": "i1"}, "cif_pktitr_next_packet after CIF_FINISHED")
    add({"op": "itr_update", "itr": "i1", "packet": [["_x", one]]}, "cif_pktitr_update_packet after CIF_FINISHED")
    add({"op": "itr_abort", "itr": "i1"}, "cif_pktitr_abort")
    add({"op": "create_loop", "cont": "hb", "category": "e", "names": ["_e1", "_e2"], "h": "le"}, None)
    add({"op": "get_packets", "loop": "le", "itr": "i3"}, "cif_loop_get_packets, loop without packets")
    add({"op": "write", "cif": "c", "bytes": 0}, "cif_write of a CIF holding a loop without packets")
    add({"op": "write", "cif": "c", "version": 1, "bytes": 0}, "cif_write (CIF 1.1) of a CIF holding a list")
    add({"op": "get_item_loop", "cont": "hb", "name": "_e1", "h": "le2"}, None)
    add({"op": "loop_destroy", "loop": "le"}, None)
    add({"op": "get_packets", "loop": "le2", "itr": "i4"}, "cif_loop_get_packets, stale loop handle")
    add({"op": "loop_add_item", "loop": "le2", "name": "_e3", "v": one}, "cif_loop_add_item, stale loop handle")
    add({"op": "loop_get_names", "loop": "le2"}, "cif_loop_get_names, stale loop handle")
    add({"op": "loop_destroy", "loop": "le2"}, "cif_loop_destroy, stale loop handle")
    add({"op": "loop_destroy", "loop": "ls"}, "cif_loop_destroy of the scalar loop")
    add({"op": "packet_create", "p": "p1", "names": ["_ok", "bad name"]}, "cif_packet_create, invalid name")
    add({"op": "packet_create", "p": "p1", "names": ["_ok"]}, None)
    add({"op": "packet_op", "p": "p1", "f": "set", "name": "no underscore"}, "cif_packet_set_item, invalid name")
    add({"op": "packet_op", "p": "p1", "f": "get", "name": "_nope"}, "cif_packet_get_item, no such item")
    add({"op": "packet_op", "p": "p1", "f": "remove", "name": "_nope"}, "cif_packet_remove_item, no such item")
    add({"op": "value_build", "v": "vl", "val": {"k": "list", "e": [one]}}, None)
    add({"op": "value_build", "v": "vc", "val": {"k": "char", "t": "abc", "q": 1}}, None)
    add({"op": "value_create", "v": "vt", "kind": 3}, None)
    add({"op": "value_create", "v": "vn", "kind": 5}, None)
    add({"op": "value_create", "v": "vbad", "kind": 77}, "cif_value_create, invalid kind")
    add({"op": "value_op", "v": "vl", "f": "get_at", "index": 5}, "cif_value_get_element_at, index out of range")
    add({"op": "value_op", "v": "vl", "f": "set_at", "index": 5, "arg": "vc"}, "cif_value_set_element_at, index out of range")
    add({"op": "value_op", "v": "vl", "f": "insert_at", "index": 5, "arg": "vc"}, "cif_value_insert_element_at, index out of range")
    add({"op": "value_op", "v": "vl", "f": "remove_at", "index": 5}, "cif_value_remove_element_at, index out of range")
    add({"op": "value_op", "v": "vc", "f": "get_at", "index": 0}, "cif_value_get_element_at of a string")
    add({"op": "value_op", "v": "vc", "f": "count"}, "cif_value_get_element_count of a string")
    add({"op": "value_op", "v": "vc", "f": "get_keys"}, "cif_value_get_keys of a string")
    add({"op": "value_op", "v": "vl", "f": "set_key", "key": "k", "arg": "vc"}, "cif_value_set_item_by_key of a list")
    add({"op": "value_op", "v": "vt", "f": "get_key", "key": "nope"}, "cif_value_get_item_by_key, no such key")
    add({"op": "value_op", "v": "vt", "f": "remove_key", "key": "nope"}, "cif_value_remove_item_by_key, no such key")
    add({"op": "value_op", "v": "vt", "f": "set_key", "key": "a\ufffeb", "arg": "vc"}, "cif_value_set_item_by_key, invalid key")
    add({"op": "value_op", "v": "vn", "f": "parse_numb", "text": "1.2.3"}, "cif_value_parse_numb, not a number")
    add({"op": "value_op", "v": "vn", "f": "parse_numb", "text": "1.5(x)"}, "cif_value_parse_numb, malformed uncertainty")
    add({"op": "value_op", "v": "vn", "f": "init_numb", "val": hx(1.5), "su": hx(-1.0), "scale": 1, "mlz": 0}, "cif_value_init_numb, negative uncertainty")
    add({"op": "value_op", "v": "vn", "f": "init_numb", "val": hx(1.5), "su": hx(0.0), "scale": 1, "mlz": -3}, "cif_value_init_numb, negative max_leading_zeroes")
    add({"op": "value_op", "v": "vn", "f": "autoinit_numb", "val": hx(1.5), "su": hx(0.1), "rule": 1}, "cif_value_autoinit_numb, su rule below 2")
    # (not-a-number / infinite arguments are outside the documented domain of the numeric initialisers: cif.h says undefined)
    add({"op": "value_op", "v": "vc", "f": "get_number"}, "cif_value_get_number of a non-numeric string")
    add({"op": "value_op", "v": "vl", "f": "get_number"}, "cif_value_get_number of a list")
    add({"op": "value_op", "v": "vl", "f": "set_quoted", "q": 1}, "cif_value_set_quoted of a list")
    add({"op": "value_op", "v": "vl", "f": "get_text"}, "cif_value_get_text of a list")
    add({"op": "value_op", "v": "vn", "f": "init", "kind": 77}, "cif_value_init, invalid kind")
    add({"op": "analyze", "s": "abc", "limit": 0}, "cif_analyze_string, length limit 0")
    add({"op": "normalize", "s": "\ud800x"}, "cif_normalize of an unpaired surrogate")
    return cmds, what


def c20(tier, replay=None):
    rep = Report("C20", tier, "model_checking")
    binary = build("asan")
    codes = read_codes()
    if len(codes) < 30:
        raise Infra("could not read the result codes from cif.h (%d found)" % len(codes))
    r = run_cifrun(binary, [{"op": "errlist"}])
    if r.crashed or not r.outs or "msgs" not in r.outs[0]:
        raise Infra("cifrun could not dump cif_errlist: " + r.stderr[-500:])
    nerr, msgs = r.outs[0]["nerr"], r.outs[0]["msgs"]
    cmds, what = returned_battery(tier)
    rb = run_cifrun(binary, cmds, timeout=900)
    if rb.crashed or len(rb.outs) != len(cmds):
        # the call that did not return is itself the observation
        k = len(rb.outs) if rb.outs is not None else 0
        rep.violation("returned-value battery: %s" % sanitizer_signature(rb.stderr), "abnormal termination in %s" % (what[min(k, len(what) - 1)] or cmds[min(k, len(cmds) - 1)]["op"]),
                      {"commands": cmds[:k + 1][-3:], "stderr": rb.stderr[-1500:]})
        returned = []
    else:
        returned = [{"call": w_, "rc": int(o["rc"])} for w_, o in zip(what, rb.outs) if w_ is not None and "rc" in o]
        if len(returned) < len([w_ for w_ in what if w_]) - 2:
            raise Infra("returned-value battery: only %d of %d calls reported a result: %s" % (len(returned), len(what), json.dumps(rb.outs[-3:])[:600]))
    # TLC integers are 32-bit and the table is indexed from 0: a value outside [-2^30, 2^30] is clipped (it is outside the table either way)
    for r_ in returned:
        r_["rc"] = max(-(1 << 30), min(1 << 30, r_["rc"]))
    wd = scratch_dir("errlist")
    trace = os.path.join(wd, "trace.ndjson")
    with open(trace, "w") as f:
        f.write(json.dumps({"codes": codes, "nerr": nerr, "slot": int(r.outs[0].get("slot", 80)), "msgs": [m.lower() for m in msgs],
                            "returned": sorted({x["rc"] for x in returned})}) + "\n")
    out, st, wd2 = run_tlc("CifErrlist", CFG, "errlist", workers=1, env={"TRACE": trace}, timeout=300)
    bad, count = None, 0
    alien = []
    for tag, o in iter_tlc_json(out, ("BAD", "COUNT", "ALIEN")):
        if tag == "BAD":
            bad = o
        elif tag == "ALIEN":
            alien = o
        else:
            count = o["codes"]
    text = open(out, errors="replace").read()
    cleanup(wd); cleanup(wd2)
    if bad is None:
        raise Infra("TLC did not evaluate the trace: " + text[-1500:])
    if st["ok"] and (bad or alien):
        raise Infra("inconsistent TLC outcome")
    for n in alien:
        calls = [x["call"] for x in returned if x["rc"] == n]
        rep.violation("returned %d" % n, "%s returned %d, which is no result code of cif.h (cif_errlist has no entry for it); %d calls of the battery do"
                      % (calls[0], n, len(calls)), {"value": n, "calls": calls[:10], "commands": [c for c, w_ in zip(cmds, what) if w_ == calls[0]][:1] and
                                                    [cmds[0]] + [c for c, w_ in zip(cmds, what) if w_ == calls[0]][:1]})
    for c in bad:
        n = c["n"]
        got = msgs[n] if n < nerr else "(outside the table, cif_nerr = %d)" % nerr
        rep.violation("%s=%d" % (c["name"], n), "cif_errlist[%s] is %r" % (c["name"], got), {"code": c, "message": got, "table": msgs})
    rep.samples = [{"code": c["name"], "n": c["n"], "message": msgs[c["n"]] if c["n"] < nerr else None} for c in codes[:6]]
    return rep.finish({"states": max(st["distinct"], 1), "transitions": max(st["generated"], 1), "traces_validated_against_impl": 1,
                       "codes_checked": count, "codes_in_header": len(codes), "nerr": nerr, "exhaustive": True,
                       "returned_values_checked": len(returned), "distinct_returned_values": len({x["rc"] for x in returned}),
                       "evaluations": len(codes), "distinct_nontrivial": len(codes),
                       "rule": "every #define CIF_<NAME> <n> of the return-code group of cif.h (read at check time) against the table dumped from the library built from /repo; the values returned by a battery of traversals, parses and failing calls must be among those codes"},
                      ["the keyword alternatives in CifErrlist.tla (Describes) state what each message must say"])
