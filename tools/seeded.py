#!/usr/bin/env python3
"""Seeded changes (/verif/seeded/<name>/patch.diff): apply one to /repo's working tree, run checks, restore the tree.
usage: seeded.py run <name> <check> [<check> ...] [--tier quick]     records the outcome in seeded/<name>/meta.json
       seeded.py add <name> <worktree> <property>                    copies MUTANT.diff / DEMO.* / NOTES.md from a worktree"""
import sys, os, json, subprocess, shutil, time, re
VERIF = os.path.dirname(os.path.dirname(os.path.abspath(__file__)))
REPO = os.environ.get("CIF_REPO", "/repo")


def sh(*a, **k):
    return subprocess.run(a, capture_output=True, text=True, **k)


def clean():
    st = sh("git", "-C", REPO, "status", "--porcelain", "--untracked-files=no").stdout.strip()
    return st == ""


def add(name, wt, prop):
    d = os.path.join(VERIF, "seeded", name)
    os.makedirs(d, exist_ok=True)
    diff = sh("git", "-C", wt, "diff", "--", "src", "misc").stdout
    if not diff.strip():
        sys.exit("no diff in " + wt)
    open(os.path.join(d, "patch.diff"), "w").write(diff)
    for f in ("DEMO.c", "DEMO.txt", "NOTES.md"):
        if os.path.exists(os.path.join(wt, f)):
            shutil.copy(os.path.join(wt, f), os.path.join(d, "demonstration.c" if f == "DEMO.c" else f))
    meta = {"property": prop, "origin": "fresh sub-agent given only the property text and a scratch worktree", "base_commit": sh("git", "-C", wt, "rev-parse", "HEAD").stdout.strip(), "results": {}}
    mp = os.path.join(d, "meta.json")
    if os.path.exists(mp):
        meta["results"] = json.load(open(mp)).get("results", {})
    json.dump(meta, open(mp, "w"), indent=1)
    print("added", d)


def run(name, checks, tier):
    d = os.path.join(VERIF, "seeded", name)
    patch = os.path.join(d, "patch.diff")
    if not clean():
        sys.exit("/repo working tree is not clean")
    r = sh("git", "-C", REPO, "apply", patch)
    if r.returncode != 0:
        sys.exit("patch does not apply: " + r.stderr)
    results = {}
    try:
        for c in checks:
            env = dict(os.environ, VERIF_EVIDENCE_DIR=os.path.join(VERIF, ".build", "seeded-evidence"))
            t0 = time.time()
            p = sh(os.path.join(VERIF, "tools", "vcheck"), c, "--tier", tier, env=env, timeout=3400)
            viol = [l for l in p.stdout.splitlines() if l.startswith("VIOLATION")]
            sigs = re.findall(r"signature: (.*)", p.stderr)
            results[c] = {"tier": tier, "exit": p.returncode, "violations": len(viol), "signatures": sigs[:6], "wall_s": round(time.time() - t0, 1)}
            print(c, results[c], flush=True)
    finally:
        sh("git", "-C", REPO, "checkout", "--", ".")
    mp = os.path.join(d, "meta.json")
    meta = json.load(open(mp))
    meta.setdefault("results", {}).update(results)
    json.dump(meta, open(mp, "w"), indent=1)


if __name__ == "__main__":
    if sys.argv[1] == "add":
        add(sys.argv[2], sys.argv[3], sys.argv[4])
    else:
        tier = "quick"
        args = sys.argv[3:]
        if "--tier" in args:
            i = args.index("--tier"); tier = args[i + 1]; args = args[:i] + args[i + 2:]
        run(sys.argv[2], args, tier)
