"""C04 / C05 / C06: CifStore.tla model-checked by TLC; every distinct state's history plus all state-preserving calls,
and every state-changing transition (optionally preceded by the refused calls of its source state), replayed into the
real library and compared with the specification's prediction."""
import json, os, sys, random, time, collections
from vlib import *
from store import *

BASE = dict(CIFS='{"c1"}', CODES='{"a", "A", "bad"}', NAMES='{"_x", "_X", "_y", "bad"}', CATS='{"NULL", "", "k"}',
            VALS='{"u", "s1"}', PVALS='{"s1", "s2"}', CSLOTS="MCCSlots2", LSLOTS="MCLSlots2", MaxId=2, MaxDepth=2, MaxNl=2,
            MaxLast=2, MaxNames=2, MaxPkt=2, MaxHist=5, MaxLoopsPerCont=2, SCRIPT="NoScript", FOREIGN="FALSE", DOCS="NoDocs")

INVS = ["DataModel", "ItrDeliversOnce"]
PROPS = ["ScalarCategoryStable", "OtherCifUnchanged", "FailedCallAtomic", "AbortReverts", "CloseCommits", "ItrTouchesOnlyCurrent"]


def make_cfg(params, emit=True):
    p = dict(BASE)
    p.update(params)
    lines = ["SPECIFICATION Spec", "CONSTANTS"]
    for k in ("CIFS", "CODES", "NAMES", "CATS", "VALS", "PVALS"):
        lines.append("  %s = %s" % (k, p[k]))
    for k in ("CSLOTS", "LSLOTS", "SCRIPT", "DOCS"):
        lines.append("  %s <- %s" % (k, p[k]))
    for k in ("MaxId", "MaxDepth", "MaxNl", "MaxLast", "MaxNames", "MaxPkt", "MaxHist", "MaxLoopsPerCont", "FOREIGN"):
        lines.append("  %s = %s" % (k, p[k]))
    lines += ["  NormC <- MCNormC", "  ValidC <- MCValidC", "  NormN <- MCNormN", "  ValidN <- MCValidN", "VIEW View"]
    if emit:
        lines += ["INVARIANT EmitState", "ACTION_CONSTRAINT EmitEdge"]
    lines += ["INVARIANT " + i for i in INVS]
    lines += ["PROPERTY " + " ".join(PROPS), "CHECK_DEADLOCK FALSE"]
    return "\n".join(lines) + "\n"


def classify(prop, job, diffs):
    """signature of a confirmed mismatch"""
    t = diffs[0][1]
    last = job.entries[-1]["op"] if job.entries else "?"
    import re
    m = re.search(r"step (\d+) (\w+): rc (\S+), specification predicts (\S+)", t)
    if m:
        return "%s rc=%s spec=%s" % (m.group(2), m.group(3).rstrip(","), m.group(4))
    m = re.search(r"abnormal termination \(([^)]*)\) while executing step (\d+)", t)
    if m:
        i = int(m.group(2)) - 1
        op = job.entries[i]["op"] if i < len(job.entries) else "project"
        return "%s %s" % (op, m.group(1))
    if "final state differs" in t:
        return "%s final state differs" % last
    m = re.search(r"step (\d+) (\w+)", t)
    if m:
        return "%s %s" % (m.group(2), t.split(":", 1)[-1][:60])
    return t[:80]


def open_calls(h, s):
    """container-level mutators in a state with an open iterator: the specification enables only loop-level calls on other
    loops there (what the documentation defines); the others are executed after the state comparison and held to C05 alone -
    whatever they return, a failure code must come with an unchanged CIF"""
    busy = [c for c, b in s["tx"].items() if b]
    if not busy:
        return []
    conts = []
    for e in h:
        for k in ("cont",) + (("h",) if e["op"] in ("create_block", "create_frame", "get_block", "get_frame") else ()):
            if e.get(k) and e[k] not in conts:
                conts.append(e[k])
    one = {"k": "numb", "t": "7"}
    calls = []
    for c in conts[:2]:
        calls += [{"op": "set_value", "cont": c, "name": "_open.new", "v": one},
                  {"op": "create_loop", "cont": c, "category": "open", "names": ["_open.a", "_open.a"]},
                  {"op": "create_loop", "cont": c, "category": "open", "names": ["_open.b"]},
                  {"op": "create_frame", "cont": c, "code": "open frame"}, {"op": "create_frame", "cont": c, "code": "open.frame"},
                  {"op": "create_block", "cif": busy[0], "code": "open.block"}, {"op": "prune", "cont": c},
                  {"op": "remove_item", "cont": c, "name": "_open.none"}]
    return [(busy[0], x) for x in calls]


def run_config(rep, binary, name, params, mode, max_states=None, rnd=None, conc_ids=(0, 1, 2)):
    """mode: 'states' (state jobs only), 'edges' (also state-changing transitions after the source's refused calls)"""
    cfg = make_cfg(params)
    out, st, wd = run_tlc("MCStore", cfg, "store-" + name, timeout=3000)
    cov = {"config": name, "tlc": {k: st[k] for k in ("generated", "distinct", "depth", "wall_s")}}
    if not st["ok"]:
        # a violated invariant / property of the specification itself is a broken model, not a finding about the code
        cleanup(wd)
        raise Infra("TLC did not complete on %s: %s" % (name, st["error"][:1500]))
    jobs = []
    probes_of = {}
    nstates = nedges = 0
    opcov = collections.Counter()
    tree = set()
    edges = []
    for tag, o in iter_tlc_json(out, ("STATE", "EDGE")):
        if tag == "STATE":
            nstates += 1
            h, s, probes = o["h"], o["s"], o["probes"]
            key = json.dumps(h, sort_keys=True)
            tree.add(key)
            probes = sorted(probes, key=lambda e: json.dumps(e, sort_keys=True))
            if rnd:
                rnd.shuffle(probes)
            if mode == "edges":
                probes_of[key] = [e for e in probes if e.get("rc", 0) not in (0, 1)]
            conc = Conc(conc_ids[nstates % len(conc_ids)]); conc.report_stuck = (rep.prop == "C04")
            for e in h + probes:
                opcov["%s:%s" % (e["op"], e.get("rc", "-"))] += 1
            jobs.append(Job("state", h + probes, s, conc, key, len(probes)))
            if rep.prop == "C05":
                jobs[-1].free = open_calls(h, s)
        else:
            nedges += 1
            edges.append(o)
    cleanup(wd)
    if nstates < 6:
        raise Infra("configuration %s explored only %d states (script not executable in its universe?)" % (name, nstates))
    # state-changing transitions into already known states, and (mode 'edges') every transition preceded by the refused
    # calls of its source state: "a following valid call behaves as if the failed one had never been made"
    k = 0
    for o in edges:
        h, s = o["h"], o["s"]
        key = json.dumps(h, sort_keys=True)
        pre = json.dumps(h[:-1], sort_keys=True)
        conc = Conc(conc_ids[k % len(conc_ids)]); conc.report_stuck = (rep.prop == "C04")
        k += 1
        if mode == "edges":
            refused = probes_of.get(pre, [])
            # refused calls before AND after the transition (those of the destination state, when it is a known state):
            # "refused, accepted, refused" histories, e.g. inside one iterator transaction
            after = [dict(x) for x in probes_of.get(key, [])][:12]
            jobs.append(Job("edge", h[:-1] + refused + [h[-1]] + after, s, conc, key, len(refused) + len(after)))
        elif key not in tree:
            jobs.append(Job("edge", h, s, conc, key, 0))
    if max_states and len(jobs) > max_states:
        rnd2 = random.Random(SEED)
        jobs = rnd2.sample(jobs, max_states)
    t0 = time.time()
    results = run_jobs(binary, jobs)
    bad = [(j, d, err) for j, d, err in results if d]
    ok = len(results) - len(bad)
    cov.update(states_emitted=nstates, edges_emitted=nedges, jobs=len(jobs), replay_wall_s=round(time.time() - t0, 1),
               calls=sum(len(j.entries) for j in jobs))
    nviol = 0
    per_sig = collections.Counter()
    for j, d, err in bad:
        lvl2 = [x for x in d if x[0] == 2]
        if not lvl2:
            rep.note_drift({"history": [e["op"] for e in j.entries[:len(j.entries) - j.nprobe]], "diffs": [x[1][:300] for x in d[:3]]})
            ok += 1
            continue
        nviol += 1
        psig = classify(rep.prop, j, lvl2)
        per_sig[psig] += 1
        if per_sig[psig] > 2 or len(per_sig) > 12:
            if per_sig[psig] == 3:
                log("  (further occurrences of '%s' are counted, not re-run)" % psig)
            continue
        if SUBRUN:
            continue
        # confirm by re-running the job alone in a fresh process
        r2 = run_jobs(binary, [j], batch=1)
        d2 = [x for x in r2[0][1] if x[0] == 2]
        if not d2:
            rep.note_drift({"flaky": True, "diffs": [x[1][:300] for x in lvl2[:3]]})
            nviol -= 1
            continue
        # shrink a batch of probes to the calls that matter (for the signature and the replay file)
        jj = shrink(binary, j)
        dd = [x for x in run_jobs(binary, [jj], batch=1)[0][1] if x[0] == 2] or d2
        sig = classify(rep.prop, jj, dd)
        rep.violation(sig, "; ".join(x[1] for x in dd[:4]), {"commands": jj.cmds(), "entries": jj.entries, "expected_state": jj.state, "stderr": (r2[0][2] or "")[-1500:]})
    cov["replayed_ok"] = ok
    cov["mismatching_jobs"] = nviol
    return cov, opcov, jobs


def shrink(binary, job):
    """Drop probe calls that are not needed to reproduce the level-2 mismatch (delta debugging on the probe batch)."""
    if job.kind != "state" or job.nprobe == 0:
        return job
    npre = len(job.entries) - job.nprobe
    pre, probes = job.entries[:npre], job.entries[npre:]

    def fails(ps):
        j = Job(job.kind, pre + ps, job.state, job.conc, job.key, len(ps))
        r = run_jobs(binary, [j], batch=1)
        return any(x[0] == 2 for x in r[0][1])

    if fails([]):
        return Job(job.kind, pre, job.state, job.conc, job.key, 0)
    cur = probes
    n = 2
    while len(cur) > 1:
        chunk = max(1, len(cur) // n)
        reduced = False
        for i in range(0, len(cur), chunk):
            sub = cur[i:i + chunk]
            if fails(sub):
                cur, n, reduced = sub, 2, True
                break
        if not reduced:
            for i in range(0, len(cur), chunk):
                sub = cur[:i] + cur[i + chunk:]
                if sub and fails(sub):
                    cur, n, reduced = sub, max(n - 1, 2), True
                    break
        if not reduced:
            if chunk == 1:
                break
            n = min(len(cur), n * 2)
    return Job(job.kind, pre + cur, job.state, job.conc, job.key, len(cur))


def finish(rep, covs, opcov, jobs, extra_assumptions=None):
    tlc_states = sum(c["tlc"]["distinct"] for c in covs)
    tlc_trans = sum(c["tlc"]["generated"] for c in covs)
    sample = []
    for j in jobs[:2000:700]:
        sample.append({"history": [j.conc.cmd(e) for e in j.entries[:len(j.entries) - j.nprobe]][:12], "then_probes": j.nprobe})
    coverage = {"states": max(tlc_states, 1), "transitions": max(tlc_trans, 1),
                "traces_validated_against_impl": sum(c["replayed_ok"] for c in covs),
                "samples": sample or ["none"], "configs": covs,
                "api_calls_executed": sum(c["calls"] for c in covs),
                "distinct_call_outcomes": len(opcov), "call_outcomes": dict(sorted(opcov.items())),
                "exhaustive": True,
                "explanation": "TLC explored CifStore.tla exhaustively within the stated constants (invariants and action properties hold on the model); every distinct state's shortest history followed by every state-preserving call, and every state-changing transition, was executed against the library built from /repo and compared call by call (result code, outputs) and by full SQL projection of the stored content"}
    return rep.finish(coverage, ["ASan/UBSan/LSan are trusted to turn memory errors into observable process failures",
                                 "ids, loop numbers and row numbers are compared as implementation-shaped detail only (drift, not violation)"] + (extra_assumptions or []))


def c04(tier, replay=None):
    rep = Report("C04", tier, "model_checking")
    binary = build("asan")
    if replay:
        return do_replay(rep, binary, replay)
    rnd = random.Random(SEED)
    covs, opcov, alljobs = [], collections.Counter(), []
    if tier == "quick":
        plans = [("main-d4", dict(MaxHist=4), "states"),
                 ("nested-d2", dict(SCRIPT="ScriptNest", MaxHist=2, MaxId=3, CODES='{"a", "b", "B", "bad"}'), "states"),
                 ("parse-d4", dict(DOCS="MCDocs", MaxHist=4, MaxId=3, CSLOTS="MCCSlots2", LSLOTS="MCLSlots1", CATS='{"", "k"}', NAMES='{"_x", "_y", "_z", "bad"}', MaxNames=1, MaxPkt=1, PVALS='{"s1"}'), "states"),
                 ("loopnull-d6", dict(CODES='{"a"}', CATS='{"NULL"}', VALS='{"s1"}', PVALS='{"s1", "s2"}', MaxNames=1, MaxLast=4, NAMES='{"_x"}', MaxPkt=1, SCRIPT="ScriptLoopN", MaxHist=6, CSLOTS="MCCSlots1", LSLOTS="MCLSlots1"), "states"),
                 ("twin-d2", dict(SCRIPT="ScriptTwin", MaxHist=2, MaxId=2, CODES='{"a", "b"}', NAMES='{"_x", "_y", "bad"}', CATS='{"NULL", "", "k"}', MaxNames=1, MaxPkt=1), "states"),
                 ("two-cifs-d4", dict(CIFS='{"c1", "c2"}', MaxHist=4, CSLOTS="MCCSlots2", NAMES='{"_x", "_X", "bad"}', CODES='{"a", "A"}', CATS='{"NULL", ""}', MaxNames=1, MaxPkt=1), "states"),
                 # two categories that differ only in capitalisation / in a character that a pattern match would take for a
                 # wildcard: categories are matched exactly, character by character
                 ("cats-d4", dict(MaxHist=4, CODES='{"a"}', NAMES='{"_x", "_y"}', CATS='{"k", "k2"}', VALS='{"s1"}', PVALS='{"s1"}', MaxNames=1, MaxPkt=1, CSLOTS="MCCSlots1", LSLOTS="MCLSlots2"), "states")]
    else:
        plans = [("main-d5", dict(MaxHist=5), "states"),
                 ("nested-d3", dict(SCRIPT="ScriptNest", MaxHist=3, MaxId=4, MaxDepth=3, CODES='{"a", "b", "B", "bad"}'), "states"),
                 ("loop-d3", dict(SCRIPT="ScriptLoop", MaxHist=3, MaxLast=4, NAMES='{"_x", "_X", "_y", "_z", "bad"}', VALS='{"u", "s1", "L"}'), "states"),
                 ("parse-d5", dict(DOCS="MCDocs", MaxHist=5, MaxId=3, CSLOTS="MCCSlots2", LSLOTS="MCLSlots1", CATS='{"", "k"}', NAMES='{"_x", "_X", "_y", "bad"}', MaxNames=1, MaxPkt=1, PVALS='{"s1"}'), "states"),
                 ("twin-d3", dict(SCRIPT="ScriptTwin", MaxHist=3, MaxId=2, CODES='{"a", "b"}', NAMES='{"_x", "_y", "bad"}', CATS='{"NULL", "", "k"}', MaxNames=1, MaxPkt=1), "states"),
                 ("two-cifs-d5", dict(CIFS='{"c1", "c2"}', MaxHist=5, NAMES='{"_x", "_X", "bad"}', CODES='{"a", "A"}', CATS='{"NULL", ""}', MaxNames=1, MaxPkt=1), "states"),
                 ("cats-d5", dict(MaxHist=5, CODES='{"a"}', NAMES='{"_x", "_y"}', CATS='{"k", "k2", "NULL"}', VALS='{"s1"}', PVALS='{"s1"}', MaxNames=1, MaxPkt=1, CSLOTS="MCCSlots1", LSLOTS="MCLSlots2"), "states")]
    for name, params, mode in plans:
        cov, oc, jobs = run_config(rep, binary, name, params, mode, rnd=rnd)
        covs.append(cov); opcov.update(oc); alljobs += jobs
        log("[C04 %s] %s" % (name, {k: cov[k] for k in ("states_emitted", "edges_emitted", "jobs", "replayed_ok", "mismatching_jobs", "replay_wall_s")}))
    return finish(rep, covs, opcov, alljobs)


def c05(tier, replay=None):
    rep = Report("C05", tier, "model_checking")
    binary = build("asan")
    if replay:
        return do_replay(rep, binary, replay)
    rnd = random.Random(SEED)
    covs, opcov, alljobs = [], collections.Counter(), []
    # three-name loops and three-entry packets put the offending element first / middle / last
    if tier == "quick":
        plans = [("offender-d4", dict(MaxHist=4, MaxNames=3, MaxPkt=2, CODES='{"a", "A"}', CATS='{"", "k"}', CSLOTS="MCCSlots1", LSLOTS="MCLSlots1", VALS='{"s1"}', PVALS='{"s1"}'), "edges"),
                 ("loop1-d2", dict(SCRIPT="ScriptLoop1", MaxHist=2, MaxLast=3, MaxNames=2, MaxPkt=3, NAMES='{"_x", "_y", "_z", "bad"}', VALS='{"s1"}', PVALS='{"s1", "s2"}'), "edges"),
                 # refused and accepted calls on another loop inside an open iterator's transaction
                 ("busy-d2", dict(SCRIPT="ScriptBusy", FOREIGN="TRUE", MaxHist=2, MaxLast=3, MaxNames=2, MaxPkt=2, NAMES='{"_x", "_y", "_z", "_w", "bad"}', VALS='{"s1"}', PVALS='{"s1", "s2"}'), "edges"),
                 ("busy1-d2", dict(SCRIPT="ScriptBusy1", FOREIGN="TRUE", MaxHist=2, MaxLast=3, MaxNames=2, MaxPkt=2, NAMES='{"_x", "_y", "_z", "_w", "bad"}', VALS='{"s1"}', PVALS='{"s1", "s2"}'), "edges"),
                 ("stuck-busy-d1", dict(SCRIPT="ScriptStuckBusy", FOREIGN="TRUE", MaxHist=1, MaxLast=3, MaxNames=2, MaxPkt=1, NAMES='{"_x", "_y", "_z", "_w"}', VALS='{"s1"}', PVALS='{"s1"}', CATS='{"", "k"}', CSLOTS="MCCSlots1", LSLOTS="MCLSlots2"), "edges")]
    else:
        plans = [("offender-d5", dict(MaxHist=5, MaxNames=3, MaxPkt=2, CODES='{"a", "A"}', CATS='{"", "k"}', CSLOTS="MCCSlots1", LSLOTS="MCLSlots1", VALS='{"s1"}', PVALS='{"s1"}'), "edges"),
                 ("loop-d3", dict(SCRIPT="ScriptLoop", MaxHist=3, MaxLast=4, MaxNames=2, MaxPkt=3, NAMES='{"_x", "_X", "_y", "_z", "bad"}', VALS='{"s1"}', PVALS='{"s1", "s2"}'), "edges"),
                 ("main-d5", dict(MaxHist=5), "edges"),
                 ("busy-d3", dict(SCRIPT="ScriptBusy", FOREIGN="TRUE", MaxHist=3, MaxLast=3, MaxNames=2, MaxPkt=2, NAMES='{"_x", "_y", "_z", "_w", "bad"}', VALS='{"s1"}', PVALS='{"s1", "s2"}'), "edges"),
                 ("busy1-d3", dict(SCRIPT="ScriptBusy1", FOREIGN="TRUE", MaxHist=3, MaxLast=3, MaxNames=2, MaxPkt=2, NAMES='{"_x", "_y", "_z", "_w", "bad"}', VALS='{"s1"}', PVALS='{"s1", "s2"}'), "edges")]
    for name, params, mode in plans:
        cov, oc, jobs = run_config(rep, binary, name, params, mode, rnd=rnd)
        covs.append(cov); opcov.update(oc); alljobs += jobs
        log("[C05 %s] %s" % (name, {k: cov[k] for k in ("states_emitted", "edges_emitted", "jobs", "replayed_ok", "mismatching_jobs", "replay_wall_s")}))
    refused = sum(v for k, v in opcov.items() if k.split(":")[1] not in ("0", "1", "-"))
    rep.assumptions.append("refused calls executed and followed by a full state comparison: %d" % refused)
    return finish(rep, covs, opcov, alljobs)


def c06(tier, replay=None):
    rep = Report("C06", tier, "model_checking")
    binary = build("asan")
    if replay:
        return do_replay(rep, binary, replay)
    rnd = random.Random(SEED)
    covs, opcov, alljobs = [], collections.Counter(), []
    itr_only = dict(CODES='{"a"}', CATS='{"k"}', VALS='{"s1"}', MaxNames=2, MaxLast=3)
    if tier == "quick":
        plans = [("loop3-d4", dict(itr_only, SCRIPT="ScriptLoop", MaxHist=4, NAMES='{"_x", "_y", "_z"}', MaxPkt=2, PVALS='{"s1", "s2", "u"}'), "states"),
                 # a loop without category: iterate, remove, close, then add packets again (row numbering after removal)
                 ("loopnull-d6", dict(CODES='{"a"}', CATS='{"NULL"}', VALS='{"s1"}', PVALS='{"s1", "s2"}', MaxNames=1, MaxLast=4, NAMES='{"_x"}', MaxPkt=1, SCRIPT="ScriptLoopN", MaxHist=6, CSLOTS="MCCSlots1", LSLOTS="MCLSlots1"), "states"),
                 ("refused-d3", dict(itr_only, SCRIPT="ScriptRefused", MaxHist=3, NAMES='{"_x", "_y", "_z"}', MaxPkt=2, PVALS='{"s1", "s2"}'), "states"),
                 ("cross-d3", dict(itr_only, SCRIPT="ScriptCross", MaxHist=3, CODES='{"a", "b"}', NAMES='{"_x", "_y"}', VALS='{"s1"}', PVALS='{"s1", "s2"}', MaxNames=1, MaxPkt=1, MaxId=2, CSLOTS="MCCSlots2", LSLOTS="MCLSlots2"), "states")]
    else:
        plans = [("cross-d4", dict(itr_only, SCRIPT="ScriptCross", MaxHist=4, CODES='{"a", "b"}', NAMES='{"_x", "_y"}', VALS='{"s1"}', PVALS='{"s1", "s2"}', MaxNames=1, MaxPkt=1, MaxId=2, CSLOTS="MCCSlots2", LSLOTS="MCLSlots2"), "states"),
                 ("loop3-d5", dict(itr_only, SCRIPT="ScriptLoop", MaxHist=5, NAMES='{"_x", "_y", "_z"}', MaxPkt=2), "states"),
                 ("refused-d4", dict(itr_only, SCRIPT="ScriptRefused", MaxHist=4, NAMES='{"_x", "_y", "_z"}', MaxPkt=2, PVALS='{"s1", "s2"}'), "states"),
                 ("loopnull-d7", dict(CODES='{"a"}', CATS='{"NULL"}', VALS='{"s1"}', PVALS='{"s1", "s2"}', MaxNames=1, MaxLast=5, NAMES='{"_x"}', MaxPkt=1, SCRIPT="ScriptLoopN", MaxHist=7, CSLOTS="MCCSlots1", LSLOTS="MCLSlots1"), "states"),
                 ("loop1-d5", dict(itr_only, SCRIPT="ScriptLoop1", MaxHist=5, NAMES='{"_x", "_X", "_y", "_z"}', MaxPkt=2, PVALS='{"s1", "s2", "u"}'), "states")]
    for name, params, mode in plans:
        # the thorough graphs have 1e5 states and more: TLC checks the properties on all of them, a seeded sample is replayed
        cov, oc, jobs = run_config(rep, binary, name, params, mode, rnd=rnd, max_states=None if tier == "quick" else 60000)
        covs.append(cov); opcov.update(oc); alljobs += jobs
        log("[C06 %s] %s" % (name, {k: cov[k] for k in ("states_emitted", "edges_emitted", "jobs", "replayed_ok", "mismatching_jobs", "replay_wall_s")}))
    return finish(rep, covs, opcov, alljobs)


def do_replay(rep, binary, path):
    with open(path) as f:
        r = json.load(f)
    rr = run_cifrun(binary, r["replay"]["commands"])
    for c, o in zip(r["replay"]["commands"], rr.outs):
        print(json.dumps(c), "->", json.dumps(o)[:400])
    if rr.crashed:
        print(rr.stderr[-3000:])
    print("expected final state:", json.dumps(r["replay"].get("expected_state")))
    return 0
