"""Replay of CifStore.tla behaviours into the real library (M2) for C04 / C05 / C06, and trace generation for M3."""
import json, os, sys, random, time, collections
from vlib import *

# ---- concretisations of the specification's spelling tokens -------------------------------------------------------
# Each lower-case token must map to a spelling that is its own case-folded NFC form (checked against cif_normalize at start).
CONCS = [
    {"codes": {"a": "a", "A": "A", "b": "b", "B": "B", "bad": "a b"},
     "names": {"_x": "_x", "_X": "_X", "_y": "_y", "_Y": "_Y", "_z": "_z", "_w": "_w", "bad": "x"},
     "cats": {"k": "atom_site", "k2": "atom-site"}, "unk_as_null": True},      # category look-alikes: a pattern character,
    {"codes": {"a": "été.1", "A": "ÉTÉ.1", "b": "σ", "B": "Σ", "bad": ""},
     "names": {"_x": "_ångström", "_X": "_ÅNGSTRÖM", "_y": "_y.σσ", "_Y": "_Y.Σσ", "_z": "_z[1]", "_w": "_w.\u03c9", "bad": "_"},
     "cats": {"k": "cat one", "k2": "CAT ONE"}, "unk_as_null": False},           # another capitalisation
    {"codes": {"a": "strasse", "A": "STRAßE", "b": "b", "B": "B", "bad": "x\ty"},
     "names": {"_x": "_\U00010428", "_X": "_\U00010400", "_y": "_y", "_Y": "_Y", "_z": "_z", "_w": "_w", "bad": "_a b"},
     "cats": {"k": "K", "k2": "k"}, "unk_as_null": True},
]
VALUES = {
    "u": {"k": "unk"},
    "n": {"k": "na"},
    "s1": {"k": "char", "t": "v one", "q": 1},
    "s2": {"k": "numb", "t": "2.50(3)"},
    "s3": {"k": "char", "t": "bare", "q": 0},
    "L": {"k": "list", "e": [{"k": "char", "t": "e1", "q": 1}, {"k": "na"}]},
    "T": {"k": "table", "e": [["key", {"k": "numb", "t": "1"}]]},
}


def vkey(v):
    """canonical key of a value as dumped by cifrun (ignoring derived numeric details)"""
    if v is None:
        return "null"
    k = v.get("k")
    if k in ("char", "numb"):
        return json.dumps([k, v.get("t"), v.get("q", 0) if k == "char" else v.get("q", 0)])
    if k == "list":
        return json.dumps(["list", [vkey(e) for e in v.get("e", [])]])
    if k == "table":
        return json.dumps(["table", sorted([[e[0], vkey(e[1])] for e in v.get("e", [])])])
    return json.dumps([k])


VTOK = {}
for _t, _v in VALUES.items():
    _vv = dict(_v)
    if _vv.get("k") == "numb":
        _vv.setdefault("q", 0)
    VTOK[vkey(_vv)] = _t


def tok_of(v):
    return VTOK.get(vkey(v), "?" + vkey(v))


class Conc:
    def __init__(self, i):
        self.i = i
        t = CONCS[i % len(CONCS)]
        self.codes, self.names, self.cats, self.unk_as_null = t["codes"], t["names"], t["cats"], t["unk_as_null"]
        self.rcodes = {v: k for k, v in self.codes.items()}
        self.rnames = {v: k for k, v in self.names.items()}
        self.rcats = {v: k for k, v in self.cats.items()}

    def code(self, t): return self.codes[t]
    def name(self, t): return self.names[t]

    def cat(self, t):
        return None if t == "NULL" else ("" if t == "" else self.cats[t])

    def rcat(self, c):
        return "NULL" if c is None else ("" if c == "" else self.rcats.get(c, "?" + c))

    def val(self, t, allow_null=True):
        if t == "u" and self.unk_as_null and allow_null:
            return None
        return VALUES[t]

    def render_value(self, tok):
        v = self.val(tok, allow_null=False)
        if v["k"] == "unk": return "?"
        if v["k"] == "na": return "."
        if v["k"] == "numb": return v["t"]
        if v["k"] == "char": return "'%s'" % v["t"] if v.get("q", 1) else v["t"]
        raise Infra("value token %s cannot be rendered in a document" % tok)

    def cmd(self, e):
        """specification log entry -> cifrun command"""
        op = e["op"]
        if op == "parse_into":
            text = "#\\#CIF_2.0\n"
            for b in e["blocks"]:
                text += "data_%s\n" % self.code(b["code"])
                for n, v in b["items"]:
                    text += "%s %s\n" % (self.name(n), self.render_value(v))
                if "loop" in b:
                    text += "loop_\n" + "".join(" %s\n" % self.name(n) for n in b["loop"]["names"])
                    for row in b["loop"]["rows"]:
                        text += " ".join(self.render_value(v) for v in row) + "\n"
                for f in b.get("frames", []):
                    text += "save_%s\n" % self.code(f["code"])
                    for n, v in f["items"]:
                        text += "%s %s\n" % (self.name(n), self.render_value(v))
                    text += "save_\n"
            return {"op": "parse", "cif": e["cif"], "text": text, "errors": "accept"}
        c = {"op": op}
        for k in ("cif", "cont", "loop", "h"):
            if k in e:
                c[k] = e[k]
        if "itr" in e:
            c["itr"] = e["itr"]
        if op == "itr_next":
            # the caller may supply the packet to be filled: rotate through none / an empty one / one with a foreign item
            self.nnext = getattr(self, "nnext", 0) + 1
            mode = (None, "empty", "foreign")[self.nnext % 3]
            if mode:
                c["supply"] = mode
        if "code" in e and e["code"] != "NULL":
            c["code"] = self.code(e["code"])
        if "category" in e and e["category"] != "NULL":
            c["category"] = self.cat(e["category"])
        if "names" in e and op == "create_loop":
            c["names"] = [self.name(n) for n in e["names"]]
        if "name" in e:
            c["name"] = self.name(e["name"])
        if "v" in e and op in ("set_value", "loop_add_item"):
            v = self.val(e["v"])
            if v is not None:
                c["v"] = v
        if "packet" in e:
            c["packet"] = [[self.name(n), self.val(v)] for n, v in e["packet"]]
        return c

    # ---- comparison of one call's outputs: returns list of (level, text); level 1 = differs from the
    # implementation-shaped prediction, level 2 = also fails the property-shaped predicate
    def compare(self, e, o):
        d = []
        if "err" in o or "crash" in o:
            return [(2, "harness/protocol error: %s" % json.dumps(o)[:300])]
        op = e["op"]
        stale = bool(e.get("stale"))
        if "rc" in e:
            rc = o.get("rc")
            if rc != e["rc"]:
                # stale handles: the header promises only best effort; any outcome without side effects is acceptable
                lvl = 1 if stale else 2
                d.append((lvl, "%s: rc %s, specification predicts %s" % (op, rc, e["rc"])))
        if op == "set_value" and e.get("stuck") and o.get("rc") == 34 and getattr(self, "report_stuck", False):
            d.append((2, "set_value: emptied scalar loop refuses a new scalar (CIF_RESERVED_LOOP): the row counter of a scalar loop whose only packet lost all its values is not reset"))
        if e.get("rc", 0) not in (0, 44) and o.get("rc") not in (0, 44):
            return d
        if op == "parse_into":
            got = [x.get("code") for x in o.get("log", []) if x.get("cb") == "error"]
            if got != list(e["errs"]):
                d.append((2, "parse_into: error codes %s, expected %s" % (got, list(e["errs"]))))
        elif op in ("get_all_blocks", "get_all_frames"):
            got, exp = sorted(o.get("codes", [])), sorted(self.code(x) for x in e["codes"])
            if got != exp:
                d.append((2, "%s: codes %s, expected %s" % (op, got, exp)))
        elif op == "get_code":
            if o.get("code") != self.code(e["code"]):
                d.append((2, "get_code: %r, expected %r" % (o.get("code"), self.code(e["code"]))))
        elif op == "get_all_loops" and e["rc"] == 0:
            got = sorted((json.dumps(l.get("cat")), sorted(l.get("names", []))) for l in o.get("loops", []))
            exp = sorted((json.dumps(self.cat(l["cat"])), sorted(self.name(n) for n in l["names"])) for l in e["loops"])
            if got != exp:
                d.append((2, "get_all_loops: %s, expected %s" % (got, exp)))
        elif op == "loop_get_names" and e["rc"] == 0:
            got, exp = sorted(o.get("names", [])), sorted(self.name(n) for n in e["names"])
            if got != exp:
                d.append((2, "loop_get_names: %s, expected %s" % (got, exp)))
        elif op in ("loop_get_category", "get_item_loop") and e["rc"] == 0 and "cat" in o:
            if o["cat"] != self.cat(e["cat"]):
                d.append((2, "%s: category %r, expected %r" % (op, o["cat"], self.cat(e["cat"]))))
        elif op == "get_value" and e["rc"] in (0, 44):
            got = tok_of(o.get("v"))
            if got != e["v"]:
                d.append((1 if got in e["anyof"] else 2, "get_value: %s, expected %s (any of %s)" % (got, e["v"], e["anyof"])))
        elif op == "itr_next" and e["rc"] == 0:
            got = {n: tok_of(v) for n, v in o.get("pkt", [])}
            exp = {self.name(n): v for n, v in e["pkt"].items()}
            if o.get("supply") == "foreign":
                got = {n: v for n, v in got.items() if n != "_zz_supplied"}      # what the caller put there is the caller's
            if got != exp:
                d.append((2, "itr_next: packet %s, expected %s" % (got, exp)))
        return d

    # ---- canonical forms of the state
    def canon_model(self, s, level):
        res = {}
        for c in s["cifs"]:
            conts = [x for x in s["cont"] if x["cif"] == c]
            def build(x):
                loops = []
                for l in s["loops"]:
                    if l["cif"] != c or l["cid"] != x["id"]:
                        continue
                    norms = {i["norm"] for i in l["items"]}
                    rows = collections.defaultdict(dict)
                    for v in s["vals"]:
                        if v["cif"] == c and v["cid"] == x["id"] and v["name"] in norms:
                            rows[v["row"]][self.name(v["name"])] = v["v"]
                    ld = {"cat": self.cat(l["cat"]), "items": sorted([self.name(i["norm"]), self.name(i["orig"])] for i in l["items"])}
                    if level == 1:
                        ld["num"], ld["last"] = l["num"], l["last"]
                        ld["rows"] = {str(r): rows[r] for r in sorted(rows)}
                    else:
                        ld["packets"] = sorted(json.dumps(rows[r], sort_keys=True) for r in rows)
                    loops.append(ld)
                loops.sort(key=lambda l: json.dumps(l["items"]))
                d = {"orig": self.code(x["orig"]), "loops": loops,
                     "frames": {self.code(y["norm"]): build(y) for y in conts if y["parent"] == x["id"]}}
                if level == 1:
                    d["id"], d["nl"] = x["id"], x["nl"]
                return d
            res[c] = {"tx": bool(s["tx"].get(c)), "blocks": {self.code(x["norm"]): build(x) for x in conts if x["parent"] == 0}}
        return res

    def canon_impl(self, projs, level):
        res = {}
        for c, p in projs.items():
            def build(x):
                loops = []
                for l in x["loops"]:
                    rows = collections.defaultdict(dict)
                    for r, n, v in l["rows"]:
                        rows[r][n] = tok_of(v)
                    ld = {"cat": l["cat"], "items": sorted([i[0], i[1]] for i in l["items"])}
                    if level == 1:
                        ld["num"], ld["last"] = l["num"], l["last"]
                        ld["rows"] = {str(r): rows[r] for r in sorted(rows)}
                    else:
                        ld["packets"] = sorted(json.dumps(rows[r], sort_keys=True) for r in rows)
                    loops.append(ld)
                loops.sort(key=lambda l: json.dumps(l["items"]))
                d = {"orig": x["code"], "loops": loops, "frames": {f["norm"]: build(f) for f in x["frames"]}}
                if level == 1:
                    d["id"], d["nl"] = x["id"], x.get("nl")
                return d
            res[c] = {"tx": p["autocommit"] == 0, "blocks": {b["norm"]: build(b) for b in p["blocks"]}}
            if p.get("orphans"):
                res[c]["orphans"] = p["orphans"]
        return res


# ---- jobs ----------------------------------------------------------------------------------------------------------
class Job:
    __slots__ = ("kind", "entries", "state", "conc", "key", "nprobe", "free")

    def __init__(self, kind, entries, state, conc, key, nprobe=0):
        self.kind, self.entries, self.state, self.conc, self.key, self.nprobe = kind, entries, state, conc, key, nprobe
        self.free = []      # (cif, command) pairs executed after the state comparison: calls whose outcome the specification leaves open

    def cmds(self):
        cs = [self.conc.cmd(e) for e in self.entries]
        for c in self.state["cifs"]:
            cs.append({"op": "project", "cif": c})
        for c, cmd in self.free:
            cs += [{"op": "project", "cif": c}, cmd, {"op": "project", "cif": c}]
        cs.append({"op": "reset"})
        return cs

    def check(self, outs):
        """returns list of (level, text)"""
        d = []
        if len(outs) < 1 + len(self.entries) + len(self.state["cifs"]) + 3 * len(self.free):
            return [(2, "execution stopped after %d of %d commands" % (len(outs), 1 + len(self.entries) + len(self.state["cifs"]) + 3 * len(self.free)))]
        if outs[-1].get("leak"):
            d.append((2, "memory leaked by this history (LeakSanitizer)"))
        for i, e in enumerate(self.entries):
            o = outs[i]
            for lvl, t in self.conc.compare(e, o):
                d.append((lvl, "step %d %s" % (i + 1, t)))
            if "env_after" in o:
                d.append((2, "step %d %s changed the process environment: %s -> %s" % (i + 1, e["op"], o.get("env_before"), o["env_after"])))
        projs = {}
        for j, c in enumerate(self.state["cifs"]):
            o = outs[len(self.entries) + j]
            if "state" not in o:
                d.append((2, "no projection for %s: %s" % (c, json.dumps(o)[:200])))
                return d
            projs[c] = o["state"]
        # calls the specification leaves open (container-level calls inside an iterator's transaction): whatever they do,
        # one that reports a failure must not have changed the CIF (C05)
        base = len(self.entries) + len(self.state["cifs"])
        for j, (c, cmd) in enumerate(self.free):
            before, o, after = outs[base + 3 * j: base + 3 * j + 3]
            if "err" in o or "state" not in before or "state" not in after:
                continue
            if o.get("rc", 0) != 0 and before["state"] != after["state"]:
                d.append((2, "open call %s inside an iterator's transaction: returned %s and changed the CIF" % (cmd["op"], o.get("rc"))))
        m1, i1 = self.conc.canon_model(self.state, 1), self.conc.canon_impl(projs, 1)
        if m1 != i1:
            m2, i2 = self.conc.canon_model(self.state, 2), self.conc.canon_impl(projs, 2)
            lvl = 2 if m2 != i2 else 1
            d.append((lvl, "final state differs: observed %s, specification %s" % (json.dumps(i1 if lvl == 1 else i2, sort_keys=True), json.dumps(m1 if lvl == 1 else m2, sort_keys=True))))
        return d


def run_jobs(binary, jobs, batch=40, timeout=300):
    """Run jobs in batches (one cifrun process per batch); returns list of (job, diffs, crash_info)."""
    results = []

    def run_batch(js):
        res = []
        todo = list(js)
        while todo:
            cmds, spans = [], []
            for j in todo:
                c = j.cmds()
                spans.append((len(cmds), len(cmds) + len(c)))
                cmds += c
            r = run_cifrun(binary, cmds, timeout=timeout)
            n = len(r.outs)
            done = 0
            for j, (a, b) in zip(todo, spans):
                if b <= n and not (r.crashed and b == n and False):
                    diffs = j.check(r.outs[a:b])
                    res.append((j, diffs, None))
                    done += 1
                else:
                    break
            if done == len(todo):
                if r.crashed and r.rc not in (0,):
                    # crash at exit (e.g. leak report at process end)
                    res[-1] = (res[-1][0], res[-1][1] + [(2, "process ended abnormally: " + sanitizer_signature(r.stderr))], r.stderr)
                break
            # job todo[done] crashed or stalled
            j = todo[done]
            a, b = spans[done]
            partial = r.outs[a:n]
            step = max(0, len(partial) - 1)
            what = "timeout" if r.timed_out else sanitizer_signature(r.stderr)
            res.append((j, [(2, "abnormal termination (%s) while executing step %d" % (what, step + 1))], r.stderr))
            todo = todo[done + 1:]
        return res

    batches = [jobs[i:i + batch] for i in range(0, len(jobs), batch)]
    for r in pmap(run_batch, batches):
        results += r
    return results
