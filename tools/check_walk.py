"""C14: CifWalk.tla enumerates every handler program on bounded CIF shapes (TLC checks the traversal properties on
each); every program is replayed through cif_walk() on the real library and the callback log compared; a log that
differs is validated by TLC against the property-shaped acceptor mode of the same module."""
import json, os, random, collections
from vlib import *

# shapes: containers {code, frames[], loops[]}; loops {cat, names[], npackets}
def cont(code, frames=(), loops=()):
    return {"code": code, "frames": list(frames), "loops": list(loops)}


def loop(cat, names, n):
    return {"cat": cat, "names": list(names), "n": n}


SHAPES = {
    "loop2x1": [cont("b1", loops=[loop("L1", ["_x"], 2)])],
    "loop1x2": [cont("b1", loops=[loop("L1", ["_x", "_y"], 1)])],
    "frame+loop": [cont("b1", frames=[cont("f1", loops=[loop("", ["_s"], 1)])], loops=[loop("L1", ["_x"], 1)])],
    "two-blocks": [cont("b1", loops=[loop("", ["_s"], 1)]), cont("b2", loops=[loop("", ["_t"], 1)])],
    "two-loops": [cont("b1", loops=[loop("L1", ["_x"], 1), loop("", ["_s"], 1)])],
    "two-frames": [cont("b1", frames=[cont("f1"), cont("f2")], loops=[loop("", ["_s"], 1)])],
    "nested-frames": [cont("b1", frames=[cont("f1", frames=[cont("g1", loops=[loop("", ["_s"], 1)])])])],
    "empty-cif": [],
    "empty-block": [cont("b1"), cont("b2")],
    # larger shapes (thorough: exhaustive where feasible, else simulation)
    "mixed": [cont("b1", frames=[cont("f1", loops=[loop("", ["_s"], 1)])], loops=[loop("L1", ["_x", "_y"], 2), loop("", ["_t"], 1)]), cont("b2")],
    "three-loops": [cont("b1", loops=[loop("L1", ["_x"], 1), loop("L2", ["_y"], 1), loop("", ["_s"], 1)])],
    "frames+loops": [cont("b1", frames=[cont("f1", loops=[loop("", ["_s"], 1)]), cont("f2")], loops=[loop("L1", ["_x"], 1)]), cont("b2")],
    "wide": [cont("b1", frames=[cont("f1"), cont("f2", loops=[loop("L9", ["_q"], 2)])], loops=[loop("L1", ["_x"], 3)]), cont("b2", loops=[loop("", ["_s", "_t"], 1)])],
}
QUICK = ["loop2x1", "loop1x2", "frame+loop", "two-blocks", "two-loops", "two-frames", "nested-frames", "empty-cif", "empty-block"]


def build_cmds(shape):
    """API commands that build the shape; every item value is the unique id of the item"""
    cmds = [{"op": "cif_create", "cif": "c"}]
    ids = {"conts": {}, "loops": {}, "items": set(), "packets": set()}
    hn = [0]

    def do_cont(c, parent_h, path):
        hn[0] += 1
        h = "h%d" % hn[0]
        cid = path + c["code"]
        if parent_h is None:
            cmds.append({"op": "create_block", "cif": "c", "code": cid, "h": h})
        else:
            cmds.append({"op": "create_frame", "cont": parent_h, "code": cid, "h": h})
        ids["conts"][cid] = c
        for f in c["frames"]:
            do_cont(f, h, cid + ".")
        for li, l in enumerate(c["loops"]):
            lid = "%s.%s" % (cid, l["cat"] or "S")
            ids["loops"][lid] = l
            key = tuple(sorted(l["names"]))
            assert key not in ids.setdefault("byname", {}), "item names must be unique within a shape"
            ids["byname"][key] = lid
            lh = "l%d" % hn[0] + "_%d" % li
            cmds.append({"op": "create_loop", "cont": h, "category": l["cat"], "names": l["names"], "h": lh})
            for p in range(1, l["n"] + 1):
                pid = "%s.p%d" % (lid, p)
                ids["packets"].add(pid)
                cmds.append({"op": "loop_add_packet", "loop": lh,
                             "packet": [[n, {"k": "char", "t": "%s.%s" % (pid, n), "q": 1}] for n in l["names"]]})
                for n in l["names"]:
                    ids["items"].add("%s.%s" % (pid, n))
    for b in shape:
        do_cont(b, None, "")
    return cmds, ids


def map_log(log, shape_ids):
    """harness callback log -> [(cb, id, r)] with element ids; containers are identified by code path, which needs the
    nesting context: start/end callbacks are matched with a stack"""
    out = []
    for e in log:
        cb, r = e["cb"], e["r"]
        if cb in ("cif_start", "cif_end"):
            out.append((cb, "cif", r))
        elif cb in ("block_start", "frame_start", "block_end", "frame_end"):
            code = e.get("code", "?")
            out.append((cb, code if code in shape_ids["conts"] else "?" + code, r))
        elif cb in ("loop_start", "loop_end"):
            lid = shape_ids.get("byname", {}).get(tuple(sorted(e.get("names", []))), "?loop")
            cat = e.get("cat")
            if not lid.startswith("?") and (cat or "S") != lid.rsplit(".", 1)[1]:
                lid = "?" + lid
            out.append((cb, lid, r))
        elif cb in ("packet_start", "packet_end"):
            pkt = e.get("pkt", [])
            pid = "?"
            if pkt and pkt[0][1].get("k") == "char":
                pid = pkt[0][1]["t"].rsplit(".", 1)[0]
                for n, v in pkt:
                    if v.get("t") != "%s.%s" % (pid, n):
                        pid = "?" + pid
            out.append((cb, pid, r))
        elif cb == "item":
            v = e.get("v", {})
            iid = v.get("t", "?")
            if not iid.endswith("." + (e.get("name") or "?")):
                iid = "?" + iid
            out.append((cb, iid, r))
        else:
            out.append((cb, "?", r))
    return out


def tla_str(s):
    return '"%s"' % s


def tree_from_discovery(log):
    """Build the Tree constant (TLA+ text) and the id sets from the all-continue callback log."""
    root = {"id": "cif", "blocks": []}
    stack = []
    cur_loop = cur_pkt = None
    for cb, i, r in log:
        if cb == "block_start":
            c = {"id": i, "frames": [], "loops": []}
            root["blocks"].append(c); stack = [c]
        elif cb == "frame_start":
            c = {"id": i, "frames": [], "loops": []}
            stack[-1]["frames"].append(c); stack.append(c)
        elif cb in ("frame_end", "block_end"):
            stack.pop()
        elif cb == "loop_start":
            cur_loop = {"id": i, "packets": []}
            stack[-1]["loops"].append(cur_loop)
        elif cb == "packet_start":
            cur_pkt = {"id": i, "items": []}
            cur_loop["packets"].append(cur_pkt)
        elif cb == "item":
            cur_pkt["items"].append(i)

    def seq(xs):
        return "<<" + ", ".join(xs) + ">>"

    def tc(c):
        return "[id |-> %s, frames |-> %s, loops |-> %s]" % (tla_str(c["id"]), seq(tc(f) for f in c["frames"]), seq(tl(l) for l in c["loops"]))

    def tl(l):
        return "[id |-> %s, packets |-> %s]" % (tla_str(l["id"]), seq(tp(p) for p in l["packets"]))

    def tp(p):
        return "[id |-> %s, items |-> %s]" % (tla_str(p["id"]), seq(tla_str(i) for i in p["items"]))
    return "[id |-> \"cif\", blocks |-> %s]" % seq(tc(b) for b in root["blocks"]), root


def mc_module(tree_tla, answers, obs=None):
    obs_tla = "<<>>"
    if obs:
        obs_tla = "<<" + ", ".join('[cb |-> "%s", id |-> "%s", r |-> %d]' % (cb, i, r) for cb, i, r in obs) + ">>"
    return ("---- MODULE MCWalk ----\nEXTENDS CifWalk\nMCTree == %s\nMCObs == %s\nMCAnswers == {%s}\n====\n"
            % (tree_tla, obs_tla, ", ".join(str(a) for a in answers)))


def run_walk_tlc(tree_tla, answers, tag, obs=None, obsrc=0, maxlen=80, simulate=None, timeout=1500):
    wd = scratch_dir("walk-" + tag)
    with open(os.path.join(wd, "MCWalk.tla"), "w") as f:
        f.write(mc_module(tree_tla, answers, obs))
    shutil.copy(os.path.join(SPEC, "CifWalk.tla"), wd)
    cfg = ("SPECIFICATION Spec\nCONSTANTS\n Tree <- MCTree\n Answers <- MCAnswers\n OBS <- MCObs\n OBSRC = %d\n MaxLen = %d\n"
           "INVARIANT Properties\nINVARIANT %s\nCHECK_DEADLOCK FALSE\n" % (obsrc, maxlen, "EmitVerdict" if obs else "EmitDone"))
    cfgp = os.path.join(wd, "MCWalk.cfg")
    open(cfgp, "w").write(cfg)
    out = os.path.join(wd, "tlc.out")
    cmd = ["tlc", "-workers", str(1 if obs else NCPU), "-metadir", os.path.join(wd, "meta"), "-config", cfgp]
    if simulate:
        cmd += ["-simulate", simulate]
    cmd += [os.path.join(wd, "MCWalk.tla")]
    t0 = time.time()
    with open(out, "w") as fo:
        try:
            rc = subprocess.run(cmd, stdout=fo, stderr=subprocess.STDOUT, cwd=wd, timeout=timeout).returncode
        except subprocess.TimeoutExpired:
            rc = -9
    tail = open(out, errors="replace").read()[-6000:] if os.path.getsize(out) < 5_000_000 else subprocess.run(["tail", "-c", "6000", out], capture_output=True, text=True).stdout
    st = {"rc": rc, "wall_s": round(time.time() - t0, 1), "generated": 0, "distinct": 0, "ok": "No error has been found" in tail or (simulate is not None and rc in (0, -9))}
    m = re.search(r"(\d+) states generated, (\d+) distinct states found", tail)
    if m:
        st["generated"], st["distinct"] = int(m.group(1)), int(m.group(2))
    if not st["ok"]:
        i = tail.find("Error:")
        st["error"] = tail[i:i + 2500]
    return out, st, wd


def presented_values(binary, rep):
    """'each item with its name and current value': the walker re-uses one packet object for all packets of a loop, so what it
    presents for packet k+1 must not depend on packet k.  Loops whose consecutive packets hold values that extend, repeat,
    shorten or change the kind of the previous packet's values are walked (all-continue) and the presented (name, value)
    pairs compared with what was stored, packet by packet"""
    C = lambda t, q=1: {"k": "char", "t": t, "q": q}
    N = lambda t: {"k": "numb", "t": t, "q": 0}
    L = lambda *e: {"k": "list", "e": list(e)}
    T = lambda *e: {"k": "table", "e": [list(x) for x in e]}
    columns = {
        "_a": [N("1"), N("12"), N("123"), N("12"), N("4"), N("4")],
        "_b": [C("x"), C("x1"), C("x1", 0), C(""), C("y"), C("")],
        "_c": [C("1", 0), N("1"), C("1"), {"k": "na"}, {"k": "unk"}, C("?")],
        "_d": [L(C("a")), L(C("a"), C("b")), L(), L(L(C("a"))), T(("k", C("a"))), T(("k", C("a")), ("m", N("2")))],
        "_e": [{"k": "unk"}, {"k": "unk"}, C("z"), {"k": "unk"}, {"k": "na"}, {"k": "na"}],
    }
    names = sorted(columns)
    npk = 6
    cmds = [{"op": "cif_create", "cif": "c"}, {"op": "create_block", "cif": "c", "code": "b", "h": "h"}, {"op": "create_loop", "cont": "h", "category": "k", "names": names, "h": "l"}]
    for i in range(npk):
        cmds.append({"op": "loop_add_packet", "loop": "l", "packet": [[n, columns[n][i]] for n in names]})
    cmds += [{"op": "walk", "cif": "c", "script": []}, {"op": "get_packets", "loop": "l", "itr": "j"}] + [{"op": "itr_next", "itr": "j", "ph": "pp"} for _ in range(npk)] + [{"op": "itr_abort", "itr": "j"}]
    rr = run_cifrun(binary, cmds, timeout=120)
    if rr.crashed or len(rr.outs) < len(cmds) or any(o.get("rc", 0) != 0 for o in rr.outs[:3 + npk]):
        rep.violation("presented values: " + sanitizer_signature(rr.stderr), "could not build / walk the loop of related packets: %s" % json.dumps(rr.outs[-2:])[:300], {"commands": cmds, "stderr": rr.stderr[-1500:]})
        return 0, 0
    from check_value import full
    strip = lambda v: json.dumps({k: x for k, x in (full(v) or {}).items() if k not in ("dg", "su", "sc", "d")}, sort_keys=True) if not isinstance(v, list) else None
    def norm(v):
        v = full(v)
        def st(x):
            if isinstance(x, dict): return {k: st(y) for k, y in x.items() if k not in ("dg", "su", "sc", "d")}
            if isinstance(x, list): return [st(y) for y in x]
            return x
        return json.dumps(st(v), sort_keys=True)
    want = sorted(json.dumps({n: norm(columns[n][i]) for n in names}, sort_keys=True) for i in range(npk))
    log_ = rr.outs[3 + npk].get("log", [])
    got, cur = [], None
    for e in log_:
        if e.get("cb") == "packet_start": cur = {}
        elif e.get("cb") == "item" and cur is not None: cur[e.get("name")] = norm(e.get("v"))
        elif e.get("cb") == "packet_end" and cur is not None: got.append(json.dumps(cur, sort_keys=True)); cur = None
    # the same through an iterator whose caller re-uses one packet object
    got2 = [json.dumps({nm: norm(v) for nm, v in o.get("pkt", [])}, sort_keys=True) for o in rr.outs[3 + npk + 2: 3 + npk + 2 + npk]]
    n = ok = 2
    if sorted(got2) != want:
        bad = [g for g in got2 if g not in want][:2]
        rep.violation("presented values: an iterator filling a re-used packet delivers values that were not stored", "cif_pktitr_next_packet into one re-used packet delivers %s; stored packets %s" % (bad, want[:3]), {"commands": cmds})
        ok -= 1
    if sorted(got) != want:
        bad = [g for g in got if g not in want][:2]
        rep.violation("presented values: a packet is presented with values that were not stored in it", "walk of a loop whose packets extend / repeat / change the previous packet's values presents %s; stored packets %s" % (bad, want[:3]),
                      {"commands": cmds})
        ok -= 1
    return n, ok


def c14(tier, replay=None):
    rep = Report("C14", tier, "model_checking")
    binary = build("asan")
    names = QUICK if tier == "quick" else QUICK + ["three-loops", "frames+loops"]
    # error codes: 10 everywhere; 1 (the value of CIF_FINISHED, which the walker uses internally) on the small shapes
    answers_for = lambda n: [0, -1, -2, -3, 10, 1] if (n in ("loop2x1", "loop1x2", "two-loops", "empty-cif", "empty-block") or tier != "quick") and n not in ("mixed", "three-loops", "frames+loops") else [0, -1, -2, -3, 10]
    covs = []
    total_programs = total_ok = 0
    tlc_states = tlc_trans = 0
    accept_budget = [12]
    for name in names:
        shape = SHAPES[name]
        answers = answers_for(name)
        bcmds, ids = build_cmds(shape)
        # discovery: all-continue walk fixes the sibling orders the implementation uses
        r = run_cifrun(binary, bcmds + [{"op": "walk", "cif": "c", "script": []}])
        if r.crashed or len(r.outs) != len(bcmds) + 1 or any(o.get("rc", 0) != 0 for o in r.outs[:-1]):
            rep.violation("build %s" % name, "could not build / walk shape %s: %s %s" % (name, json.dumps(r.outs[-2:])[:400], sanitizer_signature(r.stderr)), {"commands": bcmds})
            continue
        dlog = map_log(r.outs[-1]["log"], ids)
        tree_tla, tree = tree_from_discovery(dlog)
        seen = collections.Counter((cb, i) for cb, i, _ in dlog)
        # completeness of the discovery itself (every built element exactly once, known ids only)
        want = set(ids["conts"]) | set(ids["loops"]) | ids["packets"] | ids["items"]
        got = {i for cb, i, _ in dlog if i != "cif"}
        if want != got or any(i.startswith("?") for i in got) or r.outs[-1].get("rc") != 0:
            rep.violation("all-continue %s" % name, "all-continue walk of %s visited %s, built %s (rc %s)" % (name, sorted(got ^ want)[:8], len(want), r.outs[-1].get("rc")), {"commands": bcmds, "log": r.outs[-1]["log"][:50]})
            continue
        out, st, wd = run_walk_tlc(tree_tla, answers, name)
        if not st["ok"]:
            cleanup(wd)
            raise Infra("TLC failed on CifWalk shape %s: %s" % (name, st.get("error", "")[:1500]))
        tlc_states += st["distinct"]; tlc_trans += st["generated"]
        programs = [o for tag, o in iter_tlc_json(out, ("WALK",)) if o["done"]]
        cleanup(wd)
        # replay all programs: build once per process, then one walk command per program
        def run_chunk(chunk):
            cmds = list(bcmds) + [{"op": "walk", "cif": "c", "script": p["script"]} for p in chunk] + [{"op": "reset"}]
            rr = run_cifrun(binary, cmds, timeout=600)
            return chunk, rr
        chunks = [programs[i:i + 400] for i in range(0, len(programs), 400)]
        nok = 0
        for chunk, rr in pmap(run_chunk, chunks):
            outs = rr.outs[len(bcmds):]
            for k, p in enumerate(chunk):
                if k >= len(outs) or "log" not in outs[k]:
                    rep.violation("walk abnormal termination %s" % sanitizer_signature(rr.stderr), "cif_walk did not return for program %s on shape %s" % (p["script"], name),
                                  {"commands": bcmds + [{"op": "walk", "cif": "c", "script": p["script"]}], "stderr": rr.stderr[-1500:]})
                    break
                o = outs[k]
                obs = map_log(o["log"], ids)
                exp = [(e["cb"], e["id"], e["r"]) for e in p["log"]]
                if obs == exp and o.get("rc") == p["rc"] and o.get("autocommit") == 1:
                    nok += 1
                    continue
                # escalate to the property-shaped acceptor
                verdict = None
                if o.get("autocommit") != 1:
                    verdict = False
                elif accept_budget[0] > 0 and all(not i.startswith("?") for _, i, _ in obs):
                    accept_budget[0] -= 1
                    out2, st2, wd2 = run_walk_tlc(tree_tla, answers, name + "-acc", obs=obs, obsrc=o.get("rc", -1), timeout=120)
                    for tag, v in iter_tlc_json(out2, ("VERDICT",)):
                        verdict = v["accepted"]
                    cleanup(wd2)
                if verdict:
                    rep.note_drift({"shape": name, "script": p["script"], "observed": obs, "specified": exp})
                    nok += 1
                else:
                    d = next((i for i, (a, b) in enumerate(zip(obs, exp)) if a != b), min(len(obs), len(exp)))
                    what = "callback %d: observed %s, specified %s; rc %s vs %s" % (d + 1, obs[d] if d < len(obs) else "(end)", exp[d] if d < len(exp) else "(end)", o.get("rc"), p["rc"])
                    prev = exp[d - 1] if d > 0 else ("-", "-", 0)
                    rep.violation("walk after %s answered %s: %s" % (prev[0], prev[2], "extra/missing " + (obs[d][0] if d < len(obs) else exp[d][0] if d < len(exp) else "rc")),
                                  "shape %s program %s: %s" % (name, p["script"], what),
                                  {"commands": bcmds + [{"op": "walk", "cif": "c", "script": p["script"]}], "observed": obs, "specified": exp, "acceptor": verdict})
            if rr.crashed and len(outs) >= len(chunk):
                rep.violation("walk process " + sanitizer_signature(rr.stderr), "process ended abnormally after walking shape %s" % name, {"stderr": rr.stderr[-1500:]})
        total_programs += len(programs); total_ok += nok
        covs.append({"shape": name, "programs": len(programs), "replayed_ok": nok, "tlc": {k: st[k] for k in ("generated", "distinct", "wall_s")}})
        log("[C14 %s] programs %d ok %d tlc %.1fs" % (name, len(programs), nok, st["wall_s"]))
        if not rep.samples:
            rep.samples.append({"shape": name, "program": programs[len(programs) // 2]["script"], "predicted_log": programs[len(programs) // 2]["log"][:12], "rc": programs[len(programs) // 2]["rc"]})
    pv = presented_values(binary, rep)
    total_programs += pv[0]; total_ok += pv[1]
    log("[C14 presented values] walks %d ok %d" % pv)
    return rep.finish({"states": max(tlc_states, 1), "transitions": max(tlc_trans, 1), "traces_validated_against_impl": total_ok,
                       "handler_programs": total_programs, "shapes": covs, "answers": [0, -1, -2, -3, 10, 1], "exhaustive": True,
                       "explanation": "every assignment of {continue, skip-current, skip-siblings, end, error 10} to the callbacks of each shape (programs are prefixes pruned by the directives)"},
                      ["sibling orders (blocks, frames, loops, packets, items) are learned from an all-continue walk of the same CIF; the property leaves them open",
                       "end callbacks after a skip at the start callback / after SKIP_SIBLINGS among the children are left open by the property (acceptor mode)"])
