"""C18: CifQuote.tla enumerates the strings over an alphabet of syntactically significant characters with their
statistics and admissible delimiters; cif_analyze_string / set_quoted / is_reserved_string are run on each and the
recommended delimiter is put to the test with the real CIF 2.0 parser."""
import json, os, collections
from vlib import *
from check_doc import to_chars, from_chars, tla_seq, tla_char, palette_tla, PALETTE

SPECIALQ = {"<EOL>": "\n", "<CR>": "\r", "<TAB>": "\t", "<U2>": "é", "<U4>": "𝄞"}
SIGMA_FULL = ["a", "d", "t", "_", " ", "<TAB>", "'", "\"", ";", "<EOL>", "<CR>", "#", "$", "[", "]", "{", "}", "\\", "?", ".", ":"]
SIGMA_MID = ["a", "_", " ", "'", "\"", ";", "<EOL>", "<CR>", "\\", "#"]
SIGMA_QUICK = ["a", "_", " ", "'", "\"", ";", "<EOL>", "<CR>", "#", "[", "\\", "?", "<TAB>"]
WORDS = ["data_", "data_a", "DaTa_x", "save_", "save_f", "loop_", "LOOP_", "loop_a", "stop_", "stop_x", "global_", "global_x", "gLoBaL_", "dat_", "_data", "?", ".", "??", ".1", "$a", "#", "'''", '"""',
         "a'''", 'a"""b', "'''a\"\"\"", "ab\r\ncd", "ab \r\ncd", "\r\n;x", "\r;x", ";\\\n", "a\\  \nb", "\\\n", " \\\nx", "x;;;y;;", ";;;", "a" * 2046, "a" * 2047, "a" * 2048, "a" * 2042 + "'", "'" + "a" * 2043,
         "a" * 2040 + "\nb", "b\n" + "a" * 2046, "a" * 2049 + "\nb", "é€𝄞", "𝄞'", "a b" * 600]
# quote structure: every combination of (what rules out the simple delimiters or one triple delimiter) x (how the string
# ends), single-line and multi-line: the delimiter decision depends on both, and strings of this shape are longer than
# the exhaustive bound
_A, _Q = "'", '"'
for _pre in (_A + _Q, _A * 3, _Q * 3, _A * 3 + _Q, _Q * 3 + _A, _A * 3 + _Q * 3, _A * 2, _Q * 2):
    for _mid in ("", "a", "a b", "\n", "a\nb"):
        for _end in ("", _A, _Q, _A * 2, _Q * 2, _A + _Q, _Q + _A, "a"):
            WORDS.append(_pre + _mid + _end)
# reserved words are recognised without regard to case: every capitalisation of every reserved prefix, bare and with a tail
for _w in ("data_", "save_", "loop_", "stop_", "global_"):
    _letters = [i for i, c in enumerate(_w) if c.isalpha()]
    for _mask in range(1 << len(_letters)):
        _cs = list(_w)
        for _b, _i in enumerate(_letters):
            if _mask >> _b & 1:
                _cs[_i] = _cs[_i].upper()
        for _tail in ("", "x"):
            WORDS.append("".join(_cs) + _tail)
# near misses of the reserved words
WORDS += ["data", "dat_a", "save", "sav_", "loop", "lo_op_", "stop", "stop_x", "global", "globa_l", "xdata_", "xloop_", " loop_", "loop_ "]
# several lines whose FIRST or LAST line is within a few characters of the limit (the delimiters share those lines): for the
# small limits of the argument sets and for the real one
for _n in (2, 3, 4, 5, 6, 7, 8):
    WORDS += ["a" * _n + "\nx", "x\n" + "a" * _n, "a" * _n + "\n" + "b" * _n]
for _n in (2043, 2044, 2045, 2046, 2047, 2048):
    WORDS += ["a" * _n + "\nx", "x\n" + "a" * _n, "a" * _n + "\ny'z", "x\"y\n" + "a" * _n]
# characters beyond ASCII whose low seven bits are those of a significant ASCII character (LF, CR, blank, quotes, brackets,
# semicolon, hash, underscore, dollar): they are ordinary characters
WORDS += ["\u4e0a", "\u4e0d\u9519", "abc\u4e0adef\nsecond line", "\u0427\u0422 x", "\u0420", "a\u0420b", "\u045b\u045d", "\u043bx", "\u0423x", "\u045fx", "\u0424x", "\u010a", "x\u0427", "\u0422y"]
# a backslash that is not the last character of its line, followed by characters of each lexical class
WORDS += ["Cu K\\a\nradiation", "x\\l", "\\t", "a\\_", "q\\\"", "z\\;", "\\$", "n\\#", "b\\[", "b\\}", "k\\ab\nnext", "k\\q\nnext", "k\\a \nnext", "two\\a\\b"]
WORDS = list(dict.fromkeys(WORDS))


def s_of(chars):
    return "".join(SPECIALQ.get(c, c) for c in chars)


DELIM_NAME = {"": "bare", "'": "sq", '"': "dq", "'''": "tsq", '"""': "tdq", "\n;": "text"}


def run_quote_tlc(sigma, maxlen, tag):
    wd = scratch_dir("quote-" + tag)
    with open(os.path.join(wd, "MCQuote.tla"), "w") as f:
        f.write("---- MODULE MCQuote ----\nEXTENDS CifQuote\nMCPalette == [word |-> <<\"a\">>]\nMCSigma == {%s}\n====\n" % ", ".join(tla_char(c) for c in sigma))
    for m in ("CifDoc.tla", "CifQuote.tla"):
        shutil.copy(os.path.join(SPEC, m), wd)
    cfgp = os.path.join(wd, "MCQuote.cfg")
    open(cfgp, "w").write("SPECIFICATION QSpec\nCONSTANTS\n Dialect = 2\n Palette <- MCPalette\n VIDS = {}\n PRES = {}\n SEPS = {}\n CONTEXTS = {}\n TAILS = {}\n NSlots = 0\n SIGMA <- MCSigma\n MaxLen = %d\n"
                          "INVARIANT Consistent\nINVARIANT EmitStr\nCHECK_DEADLOCK FALSE\n" % maxlen)
    out = os.path.join(wd, "tlc.out")
    t0 = time.time()
    with open(out, "w") as fo:
        try:
            subprocess.run(["tlc", "-workers", str(NCPU), "-metadir", os.path.join(wd, "meta"), "-config", cfgp, os.path.join(wd, "MCQuote.tla")],
                           stdout=fo, stderr=subprocess.STDOUT, cwd=wd, timeout=3000)
        except subprocess.TimeoutExpired:
            pass
    tail = subprocess.run(["tail", "-c", "6000", out], capture_output=True, text=True).stdout
    if "No error has been found" not in tail:
        i = tail.find("Error:")
        cleanup(wd)
        raise Infra("TLC failed on CifQuote: " + tail[i:i + 2000])
    m = re.search(r"(\d+) states generated, (\d+) distinct states found", tail)
    return out, {"generated": int(m.group(1)), "distinct": int(m.group(2)), "wall_s": round(time.time() - t0, 1)}, wd


def py_stats(s):
    """the same definitions for strings outside TLC's enumeration (long strings); cross-checked against TLC on the
    enumerated ones at run time"""
    lines, cur, i = [], "", 0
    while i < len(s):
        c = s[i]
        if c == "\r" and i + 1 < len(s) and s[i + 1] == "\n":
            lines.append(cur); cur = ""; i += 2; continue
        if c in "\r\n":
            lines.append(cur); cur = ""; i += 1; continue
        cur += c; i += 1
    lines.append(cur)
    U = lambda x: len(x.encode("utf-16-le")) // 2
    runs = re.findall(r";+", s)
    td = bool(re.search(r"(\n|\r(?!\n));", s))
    tb = bool(re.search(r"[ \t](\r|\n)", s))
    return {"len": U(s), "lines": len(lines), "first": U(lines[0]), "last": U(lines[-1]), "max": max(U(l) for l in lines), "semis": max([len(r) for r in runs] or [0]),
            "textdelim": td, "trail": tb or s[-1:] in (" ", "\t"), "trailterm": tb}


def py_adm(s):
    one = "\n" not in s and "\r" not in s
    low = s.lower()
    reserved_word = low.startswith("data_") or low.startswith("save_") or low in ("loop_", "stop_", "global_")
    adm = {"text"}
    if one and s and not re.search(r"[ \t\[\]{}]", s) and s[0] not in "_#$'\"" and not reserved_word:
        adm.add("bare")
    if one and "'" not in s: adm.add("sq")
    if one and '"' not in s: adm.add("dq")
    if "'''" not in s and not s.endswith("'"): adm.add("tsq")
    if '"""' not in s and not s.endswith('"'): adm.add("tdq")
    return adm, bool(s) and (s[0] in "_#$'\"" or reserved_word)


def c18(tier, replay=None):
    rep = Report("C18", tier, "model_checking")
    binary = build("asan")
    # quick: all strings of length <= 3 over 13 symbols; thorough: length <= 3 over the full alphabet of 21 symbols and
    # length <= 4 over the ten symbols that interact (quotes, semicolon, line ends, backslash, blank, hash)
    configs = [(SIGMA_QUICK, 3)] if tier == "quick" else [(SIGMA_FULL, 3), (SIGMA_MID, 4)]
    strs, seen_strs = [], set()
    st = {"distinct": 0, "generated": 0}
    for sigma, n in configs:
        out, st_i, wd = run_quote_tlc(sigma, n, tier)
        for tag, o in iter_tlc_json(out, ("STR",)):
            key = json.dumps(o["s"])
            if key not in seen_strs:
                seen_strs.add(key); strs.append(o)
        cleanup(wd)
        st = dict(st_i, distinct=st["distinct"] + st_i["distinct"], generated=st["generated"] + st_i["generated"])
    items = []
    for o in strs:
        s = s_of(o["s"])
        # cross-check the Python transcription used for long strings against the specification
        ps, (pa, pr) = py_stats(s) if s else {"len": 0, "lines": 1, "first": 0, "last": 0, "max": 0, "semis": 0, "textdelim": False, "trail": False, "trailterm": False}, py_adm(s)
        if ps != o["st"] or pa != set(o["adm"]) or pr != o["res"]:
            raise Infra("transcription of CifQuote.tla differs from the specification on %r: %s vs %s" % (s, (ps, sorted(pa), pr), (o["st"], o["adm"], o["res"])))
        items.append((s, o["st"], set(o["adm"]), o["res"], o["unq"]))
    for w in WORDS:
        a, r = py_adm(w)
        items.append((w, py_stats(w), a, r, "bare" in a))
    argsets = [(u, t, lim) for u in (0, 1) for t in (0, 1) for lim in ((6, 8, 2048) if tier == "quick" else (5, 6, 8, 12, 2048))]
    nok = total = 0

    def run_chunk(ch):
        cmds = []
        for s, st_, adm, res, unq in ch:
            for u, t, lim in argsets:
                cmds.append({"op": "analyze", "s": s, "unq": u, "triple": t, "limit": lim})
            cmds.append({"op": "is_reserved", "s": s})
            cmds.append({"op": "value_build", "v": "x", "val": {"k": "char", "t": s, "q": 1}})
            cmds.append({"op": "value_op", "v": "x", "f": "set_quoted", "q": 0})
            cmds.append({"op": "value_dump", "v": "x"})
            cmds.append({"op": "value_free", "v": "x"})
        return ch, run_cifrun(binary, cmds, timeout=900)
    per = len(argsets) + 5
    readback = []      # (string, delimiter name, limit)
    for ch, rr in pmap(run_chunk, [items[i:i + 300] for i in range(0, len(items), 300)]):
        if rr.crashed:
            rep.violation("abnormal termination " + sanitizer_signature(rr.stderr), "analysis functions crashed", {"stderr": rr.stderr[:3000], "first_string": ch[0][0][:100]})
            continue
        for k, (s, st_, adm, res, unq) in enumerate(ch):
            o = rr.outs[per * k: per * k + per]
            total += 1
            problems = []
            single = st_["lines"] == 1
            for (u, t, lim), a in zip(argsets, o):
                if a.get("rc") != 0:
                    problems.append("analyze rc %s" % a.get("rc")); continue
                got = {"len": a["len"], "lines": a["lines"], "first": a["first"], "last": a["last"], "max": a["max"], "semis": a["semis"], "textdelim": bool(a["textdelim"])}
                exp = {k2: st_[k2] for k2 in got}
                if got != exp:
                    problems.append("statistics %s, exact %s" % ({k2: got[k2] for k2 in got if got[k2] != exp[k2]}, {k2: exp[k2] for k2 in got if got[k2] != exp[k2]}))
                if bool(a["trail"]) != st_["trail"] and not (st_["trailterm"] is False and bool(a["trail"]) is False):
                    problems.append("trailing-blank flag %s, expected %s" % (a["trail"], st_["trail"]))
                dn = DELIM_NAME.get(a["delim"], "?" + a["delim"])
                if dn == "bare" and not u: problems.append("recommends no delimiter although allow_unquoted = 0")
                if dn in ("tsq", "tdq") and not t: problems.append("recommends triple quotes although allow_triple_quoted = 0")
                if dn not in adm: problems.append("recommends %s which cannot present the string (admissible: %s)" % (dn, sorted(adm)))
                # ... "at any position of a line within the length limit": the delimiters share the first and the last line
                need = {"bare": st_["max"], "sq": st_["len"] + 2, "dq": st_["len"] + 2}.get(dn)
                if dn in ("tsq", "tdq"):
                    need = st_["len"] + 6 if single else max(st_["first"] + 3, st_["last"] + 3, st_["max"])
                if need is not None and need > lim:
                    problems.append("recommends %s, which needs a line of %d characters (limit %d)" % (dn, need, lim))
                # simple forms whenever the string is a single line admitting them with room to spare
                if single and st_["len"] <= lim - 2:
                    simple_ok = ("bare" in adm and u and not s.startswith(";") and s not in ("?", ".")) or "sq" in adm or "dq" in adm
                    if simple_ok and dn not in ("bare", "sq", "dq"):
                        problems.append("single line fitting the limit %d not given a simple delimiter (%s)" % (lim, dn))
                if dn in adm and lim == 2048 and "\r" not in s and len(s) < 300:
                    readback.append((s, dn, u, t))
            r_is, sq, dump = o[len(argsets)], o[len(argsets) + 2], o[len(argsets) + 3]
            if bool(r_is.get("res")) != res:
                problems.append("cif_is_reserved_string %s, expected %s" % (r_is.get("res"), res))
            ok_unq = sq.get("rc") == 0
            if ok_unq != unq:
                problems.append("set_quoted(NOT_QUOTED) rc %s, string %s stand unquoted in CIF 2.0" % (sq.get("rc"), "may" if unq else "may not"))
            elif ok_unq:
                v = dump.get("val", {})
                want = {"k": "unk"} if s == "?" else {"k": "na"} if s == "." else {"k": "char", "t": s, "q": 0}
                if {k2: v.get(k2) for k2 in want} != want:
                    problems.append("after set_quoted(NOT_QUOTED): %s, expected %s" % (v, want))
            if problems:
                rep.violation("%s: %s" % (re.sub(r"[0-9]+", "N", problems[0])[:60], "single" if single else "multi"), "string %r: %s" % (s[:80], "; ".join(problems[:4])), {"string": s[:3000], "specification": {"stats": st_, "admissible": sorted(adm), "reserved": res}})
            else:
                nok += 1
    # ground truth: present with the recommended delimiter after whitespace at several columns and parse it
    rb = list({(s, dn) for s, dn, u, t in readback})
    docs = []
    for s, dn in rb:
        body = {"bare": s, "sq": "'%s'" % s, "dq": '"%s"' % s, "tsq": "'''%s'''" % s, "tdq": '"""%s"""' % s}.get(dn)
        if body is None:
            continue       # the recommended text field: presented below, as every string is
        for lead in ("_v ", "_v\n", "_v\n ", "_v  \t"):
            if dn == "bare" and s.startswith(";") and lead.endswith("\n"):
                continue
            docs.append(("#\\#CIF_2.0\ndata_p\n" + lead + body + "\n", (s, dn, lead)))
    # every string as a text field, in each form of the CIF 2.0 protocol that can carry it: plain (no newline-semicolon inside,
    # first line not looking like a protocol line), prefixed (the prefix on every line, empty ones included), folded (every
    # line continued onto an empty one) and prefixed + folded
    P = "> "
    for s in sorted({s for s, dn in rb}):
        if "\r" in s or len(s) > 300:
            continue
        lines = s.split("\n")
        has_delim = "\n;" in s
        forms = []
        if not has_delim and not lines[0].rstrip(" \t").endswith("\\"):
            forms.append(("text field", ";" + s + "\n;"))
        forms.append(("prefixed text field", ";" + P + "\\\n" + "\n".join(P + l for l in lines) + "\n;"))
        if not has_delim and not s.startswith(";"):
            forms.append(("folded text field", ";\\\n" + "\n".join(l + "\\\n" for l in lines) + "\n;"))
        forms.append(("prefixed and folded text field", ";" + P + "\\\\\n" + "\n".join(P + l + "\\\n" + P for l in lines) + "\n;"))
        # folded only where necessary: a line is continued onto an empty one just when it ends in a backslash (and blanks),
        # every other line - also one with a backslash further in, whatever follows it - stands as it is
        need = lambda l: re.search(r"\\[ \t]*$", l) is not None
        if not has_delim and not s.startswith(";"):
            forms.append(("minimally folded text field", ";\\\n" + "\n".join((l + "\\\n") if need(l) else l for l in lines) + "\n;"))
        forms.append(("prefixed and minimally folded text field", ";" + P + "\\\\\n" + "\n".join((P + l + "\\\n" + P) if need(l) else (P + l) for l in lines) + "\n;"))
        for what, body in forms:
            docs.append(("#\\#CIF_2.0\ndata_p\n_v\n" + body + "\n", (s, what, "_v\n")))
    from check_doc import parse_docs, observed_content
    nrb = 0
    for key, po, pr, leak in parse_docs(binary, docs):
        s, dn, lead = key
        nrb += 1
        if po is None:
            rep.violation("read-back abnormal termination", "parser did not return on %r as %s" % (s, dn), {"string": s}); continue
        got = observed_content(pr["state"]).get("p", {}).get("items", {}).get("_v") if pr and "state" in pr else None
        want = {"k": "unk"} if (s == "?" and dn == "bare") else {"k": "na"} if (s == "." and dn == "bare") else {"k": "char", "t": s, "q": 0 if dn == "bare" else 1}
        errs = [e for e in po.get("log", []) if e.get("cb") == "error"]
        if errs or got != want:
            rep.violation("read-back %s" % dn, "string %r presented as %s after %r reads back as %s (errors %s)" % (s, dn, lead, got, [e["code"] for e in errs][:3]), {"string": s, "delimiter": dn, "document": next((d for d, k_ in docs if k_ == key), None)})
    rep.samples = [{"string": s, "stats": st_, "admissible": sorted(adm)} for s, st_, adm, res, unq in items[50:53]]
    log("[C18] strings %d ok %d, argument sets %d, read-back documents %d" % (total, nok, len(argsets), nrb))
    return rep.finish({"states": st["distinct"], "transitions": st["generated"], "traces_validated_against_impl": nok, "strings": total, "argument_sets": len(argsets),
                       "readback_documents": nrb, "alphabet": sigma, "max_length": n, "exhaustive": True,
                       "explanation": "every string over the alphabet up to the length bound (plus curated long / reserved-word strings) x allow_unquoted x allow_triple_quoted x limits"},
                      ["text fields are presented by the check itself in the four forms of the CIF 2.0 protocol (plain, prefixed, folded, both); the writer's own choice of form is C02's subject",
                       "the trailing-blank flag is required for blanks before a line terminator; blanks at the very end of the string are accepted either way"])
