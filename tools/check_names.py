"""C09: validity of names / codes / keys over code-point classes and matching by normalised equivalence; observations
from the library validated by TLC against CifNames.tla (oracle for the Unicode algorithms: Python's unicodedata)."""
import json, os, random, unicodedata
from vlib import *


def fold(s):
    return unicodedata.normalize("NFC", unicodedata.normalize("NFD", s).casefold())


def fold_full(s):
    # NFD, case folding, NFC as documented for cif_normalize; case folding can itself denormalise, hence the outer NFC
    return unicodedata.normalize("NFC", unicodedata.normalize("NFD", unicodedata.normalize("NFD", s).casefold()))


def cps(s):
    out = []
    for ch in s:
        out.append(ord(ch))
    return out


def u16(s):
    """python str (may hold lone surrogates) -> JSON-safe string"""
    return s


BOUNDARY = [0, 9, 11, 13, 14, 32, 33, 127, 128, 0xD800, 0xE000, 0xFDD0, 0xFDF0] + [p * 0x10000 + 0xFFFE for p in range(17)] + [p * 0x10000 for p in range(1, 17)]


def validity_cases(tier, rnd):
    pts = set()
    for b in BOUNDARY:
        for d in (-2, -1, 0, 1, 2):
            if 1 <= b + d <= 0x10FFFF:
                pts.add(b + d)
    pts |= {0x41, 0x5F, 0xE9, 0x3A3, 0x20AC, 0xFFFD, 0x1D11E, 0x10FFFD, 0xA0, 0x85, 0x2028, 0x3000, 0xAD, 0x200B}
    if tier != "quick":
        pts |= set(rnd.sample(range(1, 0x110000), 2500))
    cases = []
    for cp in sorted(pts):
        ch = chr(cp)
        for use in ("block", "frame", "loop", "scalar", "additem", "pktcreate", "pktset", "key"):
            lead = "_" if use in ("loop", "scalar", "additem", "pktcreate", "pktset") else ""
            for pos in ("first", "mid", "last"):
                body = {"first": ch + "ab", "mid": "a" + ch + "b", "last": "ab" + ch}[pos]
                cases.append((use, lead + body))
    # structural cases: empty, underscore rules, length limits
    for use in ("block", "frame"):
        for s in ("", "a", "a" * 2043, "a" * 2044, "\U0001D11E" * 2043, "\U0001D11E" * 2044, "_x", "a b"):
            cases.append((use, s))
    for use in ("loop", "scalar", "additem", "pktcreate", "pktset"):
        for s in ("", "_", "x", "_x", "__", "a_b", "_" + "n" * 2047, "_" + "n" * 2048, "_" + "\U0001D11E" * 2047, "_" + "\U0001D11E" * 2048, "_a b", " _a"):
            cases.append((use, s))
    for s in ("", " ", " lead", "trail ", "a\tb", "a\nb", "k" * 5000):
        cases.append(("key", s))
    return cases


def valid_cmds(use, s):
    pre = [{"op": "cif_create", "cif": "c"}, {"op": "create_block", "cif": "c", "code": "host", "h": "h"}]
    if use == "block":
        return pre + [{"op": "create_block", "cif": "c", "code": s, "h": "x"}], 2
    if use == "frame":
        return pre + [{"op": "create_frame", "cont": "h", "code": s, "h": "x"}], 2
    if use == "loop":
        return pre + [{"op": "create_loop", "cont": "h", "category": "k", "names": ["_ok", s], "h": "l"}], 2
    if use == "scalar":
        return pre + [{"op": "set_value", "cont": "h", "name": s, "v": {"k": "na"}}], 2
    if use == "additem":
        return pre + [{"op": "create_loop", "cont": "h", "category": "k", "names": ["_ok"], "h": "l"}, {"op": "loop_add_item", "loop": "l", "name": s, "v": {"k": "na"}}], 3
    if use == "pktcreate":
        return [{"op": "packet_create", "p": "p", "names": ["_ok", s]}], 0
    if use == "pktset":
        return [{"op": "packet_create", "p": "p", "names": []}, {"op": "packet_op", "p": "p", "f": "set", "name": s}], 1
    if use == "key":
        return [{"op": "value_create", "v": "t", "kind": 3}, {"op": "value_op", "v": "t", "f": "set_key", "key": s}], 1


CURATED = [# characters excluded from composition: the canonical form is longer than the spelling (by one unit, by two)
           "\u0958", "\u0915\u093c", "k\u0958", "x\u0344", "x\u0308\u0301", "\ufb1d", "\u05d9\u05b4", "\u2adc", "\u0f43", "abcdefghijklmnopqrstuvwxyz\u0958abcdefghijklmnopqrstuvw", "\u0958\u0958",
           # canonical equivalences among characters added to Unicode after version 3.2 (Balinese 5.0, Kaithi 5.2, Chakma 6.1)
           "\u1b06", "\u1b05\u1b35", "\u1b08", "\u1b07\u1b35", "\U000110ab", "\U000110a5\U000110ba", "\U0001112e", "\U00011131\U00011127",
           "\ufb03", "ffi", "FFI", "\ufb04", "ffl", "\u00df\u00df", "ssss", "SSSS", "\u1e9e\u00df", "stra\u00dfe\u00df", "STRASSESS", "\u0390\u0390", "a", "A", "é", "É", "É", "ß", "SS", "ss", "ẞ", "İ", "i̇", "I", "ı", "σ", "ς", "Σ", "ͅ", "ι", "ᾳ", "ᾼ", "αι", "ǰ", "ǰ", "ﬁ", "fi", "FI",
           "가", "가", "각", "각", "Å", "Å", "Å", "Ω", "Ω", "q̣̇", "q̣̇", "ạ̈", "ạ̈", "ǆ", "ǅ", "Ǆ", "ŉ", "ʼn", "ΐ", "ΐ", "և", "ԵՒ", "ꭰ", "Ꭰ", "x", "y", "k", "K", "ﬀ", "ff", "㎑", "kHz", "①", "1"]


NUMLIKE = ["1", "01", "001", "1.0", "1.", "1e0", "1E0", "+1", "-1", "100", "1e2", "1.0e2", "0", "-0", "0.0", "0x10", "16", "1a", "01a", "null", "NULL", "true", "1",
           # characters a pattern match would treat as wildcards, next to strings they would match
           "a_b", "axb", "a%", "ab", "a%b", "azzb", "%", "_", "a*", "a?", "a.b", "a[bc]", "ab]"]


def pair_cmds(x, y):
    nx, ny = "_" + x, "_" + y
    return [{"op": "normalize", "s": x}, {"op": "normalize", "s": y},
            {"op": "cif_create", "cif": "c"}, {"op": "create_block", "cif": "c", "code": x, "h": "h"},
            {"op": "get_block", "cif": "c", "code": y}, {"op": "create_block", "cif": "c", "code": y},
            {"op": "create_frame", "cont": "h", "code": x}, {"op": "get_frame", "cont": "h", "code": y}, {"op": "create_frame", "cont": "h", "code": y},
            {"op": "set_value", "cont": "h", "name": nx, "v": {"k": "na"}}, {"op": "get_value", "cont": "h", "name": ny, "want": 0},
            {"op": "create_loop", "cont": "h", "category": "k", "names": [ny]},
            {"op": "packet_create", "p": "p", "names": [nx]}, {"op": "packet_op", "p": "p", "f": "get", "name": ny},
            {"op": "value_create", "v": "t", "kind": 3}, {"op": "value_op", "v": "t", "f": "set_key", "key": x}, {"op": "value_op", "v": "t", "f": "get_key", "key": y},
            {"op": "value_op", "v": "t", "f": "set_key", "key": y}, {"op": "value_op", "v": "t", "f": "get_keys"},
            # the parser's own duplicate detection: two scalars, two names of one loop header, two block headers, two frames
            {"op": "parse", "cif": "q1", "text": "#\\#CIF_2.0\ndata_p\n%s 1\n%s 2\n" % (nx, ny), "errors": "accept"},
            {"op": "parse", "cif": "q2", "text": "#\\#CIF_2.0\ndata_p\nloop_ %s %s\n1 2\n" % (nx, ny), "errors": "accept"},
            {"op": "parse", "cif": "q3", "text": "#\\#CIF_2.0\ndata_%s\n_a 1\ndata_%s\n_b 2\n" % (x, y), "errors": "accept"},
            {"op": "parse", "cif": "q4", "text": "#\\#CIF_2.0\ndata_p\nsave_%s\n_a 1\nsave_\nsave_%s\n_b 2\nsave_\n" % (x, y), "errors": "accept"},
            # copies of a table match keys like the table itself: a clone, and the copy a packet keeps
            {"op": "value_create", "v": "u", "kind": 3}, {"op": "value_op", "v": "u", "f": "set_key", "key": x},
            {"op": "value_op", "v": "u", "f": "clone", "out": "u2"}, {"op": "value_op", "v": "u2", "f": "get_key", "key": y}, {"op": "value_op", "v": "u2", "f": "get_key", "key": x},
            {"op": "packet_create", "p": "pp", "names": ["_t"]}, {"op": "packet_op", "p": "pp", "f": "set", "name": "_t", "arg": "u"},
            {"op": "packet_op", "p": "pp", "f": "get", "name": "_t", "out": "r9"}, {"op": "value_op", "v": "r9", "f": "get_key", "key": y},
            {"op": "reset"}]


def c09(tier, replay=None):
    rep = Report("C09", tier, "model_checking")
    binary = build("asan")
    rnd = random.Random(SEED)
    vcases = validity_cases(tier, rnd)
    # pairs: curated hard cases against each other, plus random pairs from well-established scripts
    pool = list(dict.fromkeys(CURATED))
    extra = []
    blocks = [(0x41, 0x5A), (0x61, 0x7A), (0xC0, 0x17F), (0x386, 0x3CE), (0x410, 0x44F), (0x531, 0x586), (0x1E00, 0x1EFF), (0x1F00, 0x1FFC), (0xAC00, 0xAC40), (0x300, 0x32F)]
    for _ in range(120 if tier == "quick" else 3000):
        lo, hi = rnd.choice(blocks)
        ch = chr(rnd.randint(lo, hi))
        if unicodedata.category(ch) in ("Cn",) or (unicodedata.category(ch).startswith("M")):
            ch = "a" + ch
        extra.append(ch)
    # Latin-1 supplement exhaustively (all tiers), Latin Extended-A/B, Greek and Cyrillic exhaustively in the thorough tier:
    # every character that has a case folding or a canonical decomposition (short-cuts for "simple" strings tend to
    # draw their line somewhere in here)
    for lo, hi in [(0x80, 0xFF)] + ([] if tier == "quick" else [(0x100, 0x24F), (0x370, 0x3FF), (0x400, 0x45F)]):
        for cp in range(lo, hi + 1):
            ch = chr(cp)
            if unicodedata.category(ch) != "Cn" and (fold_full(ch) != ch or unicodedata.normalize("NFD", ch) != ch):
                extra.append(ch)
    pairs = []
    for x in pool:
        for y in pool:
            if x < y or (x != y and rnd.random() < 0.05):
                if fold_full(x) == fold_full(y) or unicodedata.normalize("NFC", x) == unicodedata.normalize("NFC", y) or rnd.random() < (0.15 if tier == "quick" else 1.0):
                    pairs.append((x, y))
    for ch in extra:
        for y in {ch.upper(), ch.lower(), fold_full(ch), fold_full(ch).upper(), unicodedata.normalize("NFD", ch), unicodedata.normalize("NFC", ch), ch.swapcase(), ch + "̀"}:
            if y != ch and y:
                pairs.append((ch, y))
    # spellings that a storage layer with typed columns might conflate although they are different strings: numbers in
    # several notations, and words of the query language
    for i, x in enumerate(NUMLIKE):
        for y in NUMLIKE[i + 1:]:
            pairs.append((x, y))
    pairs = list(dict.fromkeys(pairs))

    def run_valid(ch):
        cmds, spans = [], []
        for use, s in ch:
            cs, k = valid_cmds(use, s)
            spans.append((len(cmds) + k)); cmds += cs + [{"op": "reset"}]
        return ch, spans, run_cifrun(binary, cmds, timeout=900)
    recs, owners = [], []
    for ch, spans, rr in pmap(run_valid, [vcases[i:i + 500] for i in range(0, len(vcases), 500)]):
        if rr.crashed:
            rep.violation("abnormal termination " + sanitizer_signature(rr.stderr), "validity probe crashed", {"stderr": rr.stderr[:3000]}); continue
        for (use, s), k in zip(ch, spans):
            recs.append({"t": "valid", "use": use, "cps": cps(s), "rc": rr.outs[k].get("rc", -1)}); owners.append(("valid", use, s))

    def run_pairs(ch):
        cmds = []
        for x, y in ch:
            cmds += pair_cmds(x, y)
        return ch, run_cifrun(binary, cmds, timeout=900)
    n = len(pair_cmds("a", "b"))
    for ch, rr in pmap(run_pairs, [pairs[i:i + 200] for i in range(0, len(pairs), 200)]):
        if rr.crashed:
            rep.violation("abnormal termination " + sanitizer_signature(rr.stderr), "pair probe crashed", {"stderr": rr.stderr[:3000]}); continue
        for k, (x, y) in enumerate(ch):
            o = rr.outs[n * k:n * k + n]
            nx, ny = o[0].get("n"), o[1].get("n")
            keys = o[18].get("keys", [])
            rec = {"t": "pair", "feq": fold_full(x) == fold_full(y), "ceq": unicodedata.normalize("NFC", x) == unicodedata.normalize("NFC", y),
                   "normeq": nx == ny, "idemx": True, "idemy": True,
                   "found": o[4].get("rc") == 0, "dup": o[5].get("rc") == 11, "ffound": o[7].get("rc") == 0, "fdup": o[8].get("rc") == 21,
                   "ifound": o[10].get("rc") == 0, "idup": o[11].get("rc") == 41, "pfound": o[13].get("rc") == 0,
                   "kfound": o[16].get("rc") == 0, "kspell": (keys == [y]) if unicodedata.normalize("NFC", x) == unicodedata.normalize("NFC", y) else True}
            errs = lambda q: [e.get("code") for e in q.get("log", []) if e.get("cb") == "error"]
            rec.update(psdup=errs(o[19]) == [41], psnone=errs(o[19]) == [], pldup=errs(o[20]) == [41], plnone=errs(o[20]) == [] and o[20].get("rc") == 0,
                       pbdup=errs(o[21]) == [11], pbnone=errs(o[21]) == [], pfdup=errs(o[22]) == [21], pfnone=errs(o[22]) == [],
                       kcfound=o[26].get("rc") == 0, kcself=o[27].get("rc") == 0, kpfound=o[31].get("rc") == 0)
            recs.append(rec); owners.append(("pair", x, y, nx, ny))
    # idempotence needs a second normalisation: batch it
    norms = list({o[3] for o in owners if o[0] == "pair"} | {o[4] for o in owners if o[0] == "pair"})
    norms = [x for x in norms if x is not None]
    idem = {}
    def run_norm(ch):
        return ch, run_cifrun(binary, [{"op": "normalize", "s": s} for s in ch], timeout=600)
    for ch, rr in pmap(run_norm, [norms[i:i + 1000] for i in range(0, len(norms), 1000)]):
        for s, o in zip(ch, rr.outs):
            idem[s] = (o.get("n") == s)
    for rec, o in zip(recs, owners):
        if o[0] == "pair":
            rec["idemx"], rec["idemy"] = idem.get(o[3], False), idem.get(o[4], False)
    wd = scratch_dir("names")
    trace = os.path.join(wd, "trace.ndjson")
    with open(trace, "w") as f:
        for r in recs:
            f.write(json.dumps(r) + "\n")
    cfg = "SPECIFICATION Spec\nINVARIANT NotAccepted\nCHECK_DEADLOCK FALSE\n"
    out, st, wd2 = run_tlc("CifNames", cfg, "names", workers=1, env={"TRACE": trace}, timeout=2400, heap="8g")
    text = open(out, errors="replace").read()
    cleanup(wd2); cleanup(wd)
    if "Invariant NotAccepted is violated" not in text:
        raise Infra("TLC did not consume the trace: " + (st.get("error") or text[-1500:])[:1500])
    if tier != "quick":
        # M1: the class boundaries stated in the module are complete (one evaluation over the whole code space)
        wd3 = scratch_dir("names-part")
        tr = os.path.join(wd3, "t.ndjson"); open(tr, "w").write(json.dumps(recs[0]) + "\n")
        out3, st3, wd4 = run_tlc("CifNames", "SPECIFICATION Spec\nINVARIANT PartitionOK\nCHECK_DEADLOCK FALSE\n", "names-part", workers=1, env={"TRACE": tr}, timeout=1500)
        ok3 = st3["ok"]
        cleanup(wd3); cleanup(wd4)
        if not ok3:
            raise Infra("CifNames.PartitionOK failed: " + st3["error"][:800])
    nb = 0
    for at in sorted({int(m.group(1)) for m in re.finditer(r'<<"BREACH", (\d+)>>', text)}):
        nb += 1
        o, r = owners[at - 1], recs[at - 1]
        if o[0] == "valid":
            cp = [hex(c) for c in r["cps"][:6]]
            rep.violation("validity %s: rc %s for %s" % (o[1], r["rc"], "U+%04X class" % max(r["cps"]) if r["cps"] and max(r["cps"]) > 127 else repr(o[2][:12])),
                          "creating %s named %r (code points %s) returned %s" % (o[1], o[2][:30], cp, r["rc"]), {"use": o[1], "cps": r["cps"][:50], "rc": r["rc"]})
        else:
            bad = [k for k in ("normeq", "found", "dup", "ffound", "fdup", "ifound", "idup", "pfound") if r[k] != r["feq"]] + (["kfound"] if r["kfound"] != r["ceq"] else []) + [k for k in ("idemx", "idemy", "kspell") if not r[k]]
            rep.violation("pair %s: %s" % ("equivalent" if r["feq"] else "distinct", ",".join(bad)),
                          "spellings %r / %r (oracle: folded-equivalent %s, canonically equivalent %s): %s" % (o[1], o[2], r["feq"], r["ceq"], {k: r[k] for k in bad}),
                          {"x": [hex(ord(c)) for c in o[1]], "y": [hex(ord(c)) for c in o[2]], "record": r, "normalized": [o[3], o[4]]})
    rep.samples = [recs[0], next(r for r in recs if r["t"] == "pair")]
    log("[C09] validity cases %d, pairs %d (equivalent %d), breaches %d" % (len(vcases), len(pairs), sum(1 for r in recs if r["t"] == "pair" and r["feq"]), nb))
    return rep.finish({"states": st["distinct"], "transitions": st["generated"], "traces_validated_against_impl": len(recs) - nb, "validity_cases": len(vcases), "pairs": len(pairs),
                       "equivalent_pairs": sum(1 for r in recs if r["t"] == "pair" and r["feq"]), "exhaustive": False,
                       "explanation": "validity: every class boundary of the code space +-2 (thorough: 2500 further code points) at first / middle / last position in 8 uses, plus length and structure limits; matching: curated hard cases (sharp s, dotted I, final sigma, ypogegrammeni, Hangul, singletons, reordered marks, ligatures) against each other and random characters of established scripts against their case / normalisation variants; every observation judged by TLC"},
                      ["Unicode algorithm oracle: Python unicodedata (Unicode %s); characters are drawn from scripts stable across Unicode versions" % unicodedata.unidata_version])
