#!/usr/bin/env python3
"""Rewrites the tables of DESIGN.md sections 7.1 / 7.2 from known_findings.json."""
import json, os, re
V = os.path.dirname(os.path.dirname(os.path.abspath(__file__)))
d = json.load(open(os.path.join(V, "known_findings.json")))
rows = []
for f in d["fixed"]:
    m = re.match(r"fixed: property=(C\d+) (\w+) (.*)", f)
    rows.append("| %s | `%s` | %s |" % (m.group(1), m.group(2), m.group(3).replace("|", "\\|")))
orows = []
for f in d["findings"]:
    ident = ("`%s`" % f["signature"].replace("|", "\\|")) if "signature" in f else ("exact cases listed in `%s`" % f["cases_file"])
    orows.append("| %s | %s | %s |" % (f["property"], ident, f["what"].replace("|", "\\|")))
p = os.path.join(V, "DESIGN.md")
s = open(p).read()
a = s.index("| property | commit | what failed |")
b = s.index("### 7.2 Open findings")
s = s[:a] + "| property | commit | what failed |\n|---|---|---|\n" + "\n".join(rows) + "\n\n" + s[b:]
a = s.index("| property | signature | what fails, and why it was not repaired |")
b = s.index("Why these are not repaired:")
s = s[:a] + "| property | signature | what fails, and why it was not repaired |\n|---|---|---|\n" + "\n".join(orows) + "\n\n" + s[b:]
s = re.sub(r"\(\d+ repaired with `fix:` commits, \d+ recorded as open findings\)", "(%d repaired with `fix:` commits, %d recorded as open findings)" % (len(set(re.match(r"fixed: property=C\d+ (\w+)", f).group(1) for f in d["fixed"])), len(d["findings"])), s)
open(p, "w").write(s)
print(len(rows), "fixed entries,", len(orows), "open findings")
