"""C15: CifParseEvents.tla enumerates every handler program on bounded documents; each is replayed through cif_parse()
in storing and in syntax-only mode; callback logs, return codes and the stored content are compared."""
import json, os, collections
from vlib import *


def item(n): return {"k": "item", "n": n}
def loop(lid, names, npk): return {"k": "loop", "lid": lid, "names": names, "n": npk}
def frame(code, kids): return {"k": "frame", "code": code, "kids": kids}
def block(code, kids): return {"code": code, "kids": kids}


DOCS = {
    "scalars": [block("b1", [item("_s"), item("_t")])],
    "loop2x1": [block("b1", [loop("L1", ["_x"], 2)])],
    "loop1x2": [block("b1", [loop("L1", ["_x", "_y"], 1)])],
    "item+loop": [block("b1", [item("_s"), loop("L1", ["_x"], 1), item("_t")])],
    "frame": [block("b1", [item("_s"), frame("f1", [item("_u")]), item("_t")])],
    "two-blocks": [block("b1", [item("_s")]), block("b2", [loop("L2", ["_x"], 1)])],
    "frame+loop": [block("b1", [frame("f1", [loop("L1", ["_x"], 1)]), item("_t")]), block("b2", [])],
    "empty": [],
    "three-blocks": [block("b1", [item("_s")]), block("b2", [item("_t")]), block("b3", [item("_u")])],
    "loop2x2": [block("b1", [loop("L1", ["_x", "_y"], 2), item("_t")])],
    "big": [block("b1", [item("_s"), loop("L1", ["_x", "_y"], 2), frame("f1", [item("_u"), loop("L2", ["_q"], 2)]), item("_t")]), block("b2", [item("_v")])],
}
QUICK = ["scalars", "loop2x1", "loop1x2", "item+loop", "frame", "two-blocks", "frame+loop", "empty"]


def render(doc):
    """document text + TLA+ constant + id maps"""
    lines = ["#\\#CIF_2.0"]
    maps = {"conts": set(), "scalars": {}, "loops": {}, "packets": set(), "items": set()}

    def seq(xs):
        return "<<" + ", ".join(xs) + ">>"

    def do_cont(code, kids, isblock):
        lines.append(("data_" if isblock else "save_") + code)
        maps["conts"].add(code)
        tk = []
        for k in kids:
            if k["k"] == "item":
                iid = "%s.%s" % (code, k["n"])
                maps["scalars"][iid] = (code, k["n"])
                lines.append("%s '%s'" % (k["n"], iid))
                tk.append('[k |-> "item", id |-> "%s", n |-> "%s"]' % (iid, k["n"]))
            elif k["k"] == "loop":
                lid = "%s.%s" % (code, k["lid"])
                maps["loops"][lid] = k["names"]
                lines.append("loop_")
                for n in k["names"]:
                    lines.append(" " + n)
                pk = []
                for p in range(1, k["n"] + 1):
                    pid = "%s.p%d" % (lid, p)
                    maps["packets"].add(pid)
                    its = ["%s.%s" % (pid, n) for n in k["names"]]
                    maps["items"].update(its)
                    lines.append(" ".join("'%s'" % i for i in its))
                    pk.append('[id |-> "%s", items |-> %s]' % (pid, seq('"%s"' % i for i in its)))
                tk.append('[k |-> "loop", id |-> "%s", names |-> %s, packets |-> %s]' % (lid, seq('"%s"' % n for n in k["names"]), seq(pk)))
            else:
                tk.append('[k |-> "frame", c |-> %s]' % do_cont(k["code"], k["kids"], False))
        if not isblock:
            lines.append("save_")
        return '[id |-> "%s", kids |-> %s]' % (code, seq(tk))

    tla = "[blocks |-> %s]" % seq(do_cont(b["code"], b["kids"], True) for b in doc)
    return "\n".join(lines) + "\n", tla, maps


def map_log(log, maps):
    """harness callback log -> [(cb, id-or-None, r)]"""
    byname = {tuple(sorted(v)): k for k, v in maps["loops"].items()}
    out = []
    for e in log:
        cb = e["cb"]
        if cb in ("error", "ws", "kw", "dn"):
            # dn: the data name as written; kw: the text handed over is left open (cif.h: "length may be zero")
            out.append((cb, None if cb == "kw" else e.get("code", e.get("t")), e.get("r", 0)))
            continue
        r = e["r"]
        if cb in ("cif_start", "cif_end"):
            out.append((cb, "cif", r))
        elif cb in ("block_start", "block_end", "frame_start", "frame_end"):
            out.append((cb, e.get("code"), r))
        elif cb in ("loop_start", "loop_end"):
            out.append((cb, byname.get(tuple(sorted(e["names"]))) if "names" in e else None, r))
        elif cb in ("packet_start", "packet_end"):
            pkt = e.get("pkt")
            pid = None
            if pkt and pkt[0][1].get("k") == "char":
                pid = pkt[0][1]["t"].rsplit(".", 1)[0]
            out.append((cb, pid, r))
        elif cb == "item":
            out.append((cb, (e.get("v") or {}).get("t"), r))
        else:
            out.append((cb, None, r))
    return out


def stored_ids(state, maps):
    """projection of the parsed CIF -> set of entity ids"""
    ids = set()
    byname = {tuple(sorted(v)): k for k, v in maps["loops"].items()}

    def walk(c):
        ids.add(c["code"])
        for l in c["loops"]:
            names = tuple(sorted(i[1] for i in l["items"]))
            if l["cat"] == "":
                for r, n, v in l["rows"]:
                    ids.add(v.get("t", "?"))
                extra = {i[1] for i in l["items"]} - {n for r, n, v in l["rows"]}
                if extra:
                    ids.add("?valueless-scalars:%s" % sorted(extra))
            else:
                lid = byname.get(names, "?loop:%s" % (names,))
                ids.add(lid)
                rows = collections.defaultdict(dict)
                for r, n, v in l["rows"]:
                    rows[r][n] = v.get("t", "?")
                for r, vals in rows.items():
                    pids = {t.rsplit(".", 1)[0] for t in vals.values()}
                    ok = len(pids) == 1 and all(vals.get(n) == "%s.%s" % (list(pids)[0], n) for n in names)
                    ids.add(list(pids)[0] if ok else "?packet:%s" % vals)
        for f in c["frames"]:
            walk(f)
    for b in state["blocks"]:
        walk(b)
    return ids


def run_tlc_doc(tla, answers, tag, maxlen=80):
    wd = scratch_dir("pev-" + tag)
    with open(os.path.join(wd, "MCParseEvents.tla"), "w") as f:
        f.write("---- MODULE MCParseEvents ----\nEXTENDS CifParseEvents\nMCDoc == %s\nMCAnswers == {%s}\n====\n" % (tla, ", ".join(map(str, answers))))
    shutil.copy(os.path.join(SPEC, "CifParseEvents.tla"), wd)
    cfgp = os.path.join(wd, "MCParseEvents.cfg")
    open(cfgp, "w").write("SPECIFICATION Spec\nCONSTANTS\n Doc <- MCDoc\n Answers <- MCAnswers\n STORING = TRUE\n MaxLen = %d\nINVARIANT Properties\nINVARIANT EmitDone\nCHECK_DEADLOCK FALSE\n" % maxlen)
    out = os.path.join(wd, "tlc.out")
    t0 = time.time()
    with open(out, "w") as fo:
        try:
            rc = subprocess.run(["tlc", "-workers", str(NCPU), "-metadir", os.path.join(wd, "meta"), "-config", cfgp, os.path.join(wd, "MCParseEvents.tla")],
                                stdout=fo, stderr=subprocess.STDOUT, cwd=wd, timeout=1500).returncode
        except subprocess.TimeoutExpired:
            rc = -9
    tail = subprocess.run(["tail", "-c", "6000", out], capture_output=True, text=True).stdout
    st = {"rc": rc, "wall_s": round(time.time() - t0, 1), "generated": 0, "distinct": 0, "ok": "No error has been found" in tail}
    m = re.search(r"(\d+) states generated, (\d+) distinct states found", tail)
    if m:
        st["generated"], st["distinct"] = int(m.group(1)), int(m.group(2))
    if not st["ok"]:
        i = tail.find("Error:")
        st["error"] = tail[i:i + 2500]
    return out, st, wd


OPTIONAL_ENDS = {"block_end", "frame_end", "loop_end", "packet_end", "cif_end"}


def lenient_equal(obs, exp):
    """property-shaped comparison: end callbacks of entities skipped at their start / cut short by SKIP_SIBLINGS are left
    open by the property; compare the logs without any end callback that follows a skip of the same entity"""
    def strip(log):
        skipped = set()
        cut = False
        out = []
        for cb, i, r in log:
            if cb.endswith("_start") and r in (-1, -2):
                skipped.add(i)
            if cb in OPTIONAL_ENDS and (i in skipped or cut or i is None):
                continue
            if r == -2:
                cut = True
            out.append((cb, i, r))
        return out
    a, b = strip(obs), strip(exp)
    return len(a) == len(b) and all(x[0] == y[0] and x[2] == y[2] and (x[1] is None or x[1] == y[1]) for x, y in zip(a, b))


WS_DOCS = ["#\\#CIF_2.0\ndata_d\n_a [1 2]\n_b [ 3 4 ] # c\n_c {'k':v 'm': w}\nloop_ _x\n 1\n 2\n",
           "#\\#CIF_2.0\n# first\n\ndata_d   _a\t'x'  \n\n   save_f _u [[1] {'k':[2]}] save_\n_t  \"y\"   # end",
           "data_d\n_a 1 _b 2\nloop_\n_x _y\n1 2 3 4\n"]


def ws_tokens(text):
    """(tokens, white space and comment text in order) of a simply laid out document (no blanks inside quoted strings)"""
    toks, ws, i = 0, [], 0
    while i < len(text):
        ch = text[i]
        if ch in " \t\n":
            j = i
            while j < len(text) and text[j] in " \t\n":
                j += 1
            ws.append(text[i:j]); i = j
        elif ch == "#" and (i == 0 or text[i - 1] in " \t\n"):
            j = text.find("\n", i)
            j = len(text) if j < 0 else j
            ws.append(text[i:j]); i = j
        else:
            j = i
            while j < len(text) and text[j] not in " \t\n":
                j += 1
            word = text[i:j]
            # brackets and braces are tokens of their own; a quoted key with its colon is one token
            k = 0
            while k < len(word):
                if word[k] in "[]{}":
                    toks += 1; k += 1
                elif word[k] in "'\"":
                    e = word.index(word[k], k + 1)
                    k = e + 1
                    if k < len(word) and word[k] == ":":
                        k += 1
                    toks += 1
                else:
                    e = k
                    while e < len(word) and word[e] not in "[]{}":
                        e += 1
                    toks += 1; k = e
            i = j
    return toks, "".join(ws)


def ws_runs(binary, rep):
    """the white space callback (cif.h): runs of insignificant white space and comments are reported in document order - all
    of them, possibly split - and every transition to a token is marked by a zero-length run, also where optional white
    space is omitted.  Checked on an all-continue parse, storing and syntax-only"""
    cmds = []
    for t in WS_DOCS:
        cmds += [{"op": "parse", "cif": "c", "text": t, "handler": 1, "syntax": 1, "ws": 1, "errors": "accept"}, {"op": "parse", "text": t, "handler": 1, "syntax": 1, "ws": 1, "errors": "accept"}, {"op": "reset"}]
    rr = run_cifrun(binary, cmds, timeout=300)
    n = ok = 0
    for i, t in enumerate(WS_DOCS):
        toks, wstext = ws_tokens(t)
        for j, mode in ((0, "storing"), (1, "syntax-only")):
            n += 1
            o = rr.outs[3 * i + j] if 3 * i + j < len(rr.outs) else {}
            runs = [e.get("t", "") for e in o.get("log", []) if e.get("cb") == "ws"]
            got, marks = "".join(runs), sum(1 for r in runs if r == "")
            errs = [e for e in o.get("log", []) if e.get("cb") == "error"]
            if "log" not in o or errs or o.get("rc") != 0:
                rep.violation("whitespace runs: parse failed", "document %r (%s): rc %s errors %s" % (t, mode, o.get("rc"), errs[:2]), {"text": t})
            elif got != wstext:
                rep.violation("whitespace runs: text reported differs from the document's", "document %r (%s): reported %r, the document has %r" % (t, mode, got, wstext), {"text": t, "runs": runs})
            elif marks != toks:
                rep.violation("whitespace runs: %s zero-length markers than tokens" % ("fewer" if marks < toks else "more"), "document %r (%s): %d zero-length runs for %d tokens" % (t, mode, marks, toks), {"text": t, "runs": runs})
            else:
                ok += 1
    return n, ok


def registrations(binary, rep, texts):
    """every callback is optional (cif.h): what the registered ones are told does not depend on which others are registered.
    Each document is parsed (all-continue, storing and syntax-only) with every subset of {handler, keyword callback, data-name
    callback, white space callback} registered; the log of each parse must be the projection of the all-registered log"""
    kinds = {"kw": "kw", "dn": "dn", "ws": "ws"}
    subsets = [(h, sy, ws) for h in (1, 0) for sy in (1, 2, 3, 0) for ws in (1, 0)]
    cmds = []
    for t in texts:
        for store in (1, 0):
            for h, sy, ws in subsets:
                c = {"op": "parse", "text": t, "handler": h, "ws": ws, "errors": "accept"}
                if sy: c["syntax"] = sy
                if store: c["cif"] = "c"
                cmds.append(c)
                if store: cmds.append({"op": "cif_destroy", "cif": "c"})
    rr = run_cifrun(binary, cmds, timeout=600)
    outs = [o for o in rr.outs if o.get("op") == "parse" or "log" in o]
    n = ok = 0
    k = 0
    for t in texts:
        for store in (1, 0):
            ref = None
            for h, sy, ws in subsets:
                o = outs[k] if k < len(outs) else {}
                k += 1
                n += 1
                if "log" not in o:
                    rep.violation("registrations: parse did not return " + sanitizer_signature(rr.stderr), "document %r handler=%d syntax=%d ws=%d" % (t, h, sy, ws), {"text": t, "stderr": rr.stderr[-1500:]})
                    return n, ok
                lg = [(e.get("cb"), e.get("t"), e.get("line"), e.get("col"), e.get("code"), e.get("name")) for e in o["log"]]
                if ref is None:
                    ref = lg
                    ok += 1
                    continue
                keep = lambda e: (e[0] == "error" or (e[0] == "kw" and sy in (1, 3)) or (e[0] == "dn" and sy in (1, 2)) or (e[0] == "ws" and ws)
                                  or (e[0] not in ("kw", "dn", "ws", "error") and h))
                want = [e for e in ref if keep(e)]
                if lg != want or o.get("rc") != 0:
                    miss = [e for e in want if e not in lg][:2]
                    extra = [e for e in lg if e not in want][:2]
                    what = "handler" if h else "no handler"
                    rep.violation("registrations: log is not the projection of the all-registered log (%s, syntax %d, ws %d)" % (what, sy, ws),
                                  "document %r (%s): with %s, syntax callbacks %s, white space callback %s: rc %s, %d callbacks where the projection has %d; missing %s, unexpected %s"
                                  % (t, "storing" if store else "syntax-only", what, {0: "none", 1: "both", 2: "data-name only", 3: "keyword only"}[sy], "set" if ws else "unset", o.get("rc"), len(lg), len(want), miss, extra),
                                  {"text": t, "commands": [dict({"op": "parse", "text": t, "handler": h, "ws": ws, "errors": "accept"}, **({"syntax": sy} if sy else {}))]})
                else:
                    ok += 1
    return n, ok


def c15(tier, replay=None):
    rep = Report("C15", tier, "model_checking")
    binary = build("asan")
    names = QUICK if tier == "quick" else QUICK + ["three-blocks", "loop2x2"]
    covs = []
    total = total_ok = tstates = ttrans = 0
    for name in names:
        text, tla, maps = render(DOCS[name])
        answers = [0, -1, -2, -3, 10] if name != "big" else [0, -1, -2, -3, 10]
        out, st, wd = run_tlc_doc(tla, answers, name)
        if not st["ok"]:
            cleanup(wd)
            raise Infra("TLC failed on CifParseEvents document %s: %s" % (name, st.get("error", "")[:1500]))
        tstates += st["distinct"]; ttrans += st["generated"]
        programs = [o for tag, o in iter_tlc_json(out, ("PARSE",)) if o["done"]]
        cleanup(wd)
        if tier == "quick" and len(programs) > 5000:
            random.Random(SEED).shuffle(programs)
            programs = programs[:5000]

        def run_chunk(chunk):
            cmds = []
            for p in chunk:
                cmds.append({"op": "parse", "cif": "c", "text": text, "handler": 1, "syntax": 1, "script": p["script"], "errors": "accept"})
                cmds.append({"op": "project", "cif": "c"})
                cmds.append({"op": "parse", "text": text, "handler": 1, "syntax": 1, "script": p["script"], "errors": "accept"})
                cmds.append({"op": "reset"})
            return chunk, run_cifrun(binary, cmds, timeout=900)
        chunks = [programs[i:i + 150] for i in range(0, len(programs), 150)]
        nok = 0
        for chunk, rr in pmap(run_chunk, chunks):
            for k, p in enumerate(chunk):
                o = rr.outs[4 * k: 4 * k + 4]
                if len(o) < 4 or "log" not in o[0] or "log" not in o[2] or "state" not in o[1]:
                    rep.violation("parse abnormal termination " + sanitizer_signature(rr.stderr), "cif_parse did not return for program %s on document %s" % (p["script"], name),
                                  {"text": text, "script": p["script"], "stderr": rr.stderr[-1500:]})
                    break
                exp = [(e["cb"], e["id"], e["r"]) for e in p["full"]]      # handler and syntax callbacks, interleaved
                problems = []
                drift = []
                for mode, oo in (("storing", o[0]), ("syntax-only", o[2])):
                    obs = map_log(oo["log"], maps)
                    same = len(obs) == len(exp) and all(x[0] == y[0] and x[2] == y[2] and (x[1] is None or x[1] == y[1]) for x, y in zip(obs, exp))
                    if oo.get("rc") != p["rc"]:
                        problems.append("%s: rc %s, specified %s" % (mode, oo.get("rc"), p["rc"]))
                    elif not same:
                        if lenient_equal(obs, exp):
                            drift.append({"mode": mode, "observed": obs, "specified": exp})
                        else:
                            d = next((i for i, (a, b) in enumerate(zip(obs, exp)) if not (a[0] == b[0] and a[2] == b[2] and (a[1] is None or a[1] == b[1]))), min(len(obs), len(exp)))
                            problems.append("%s: callback %d observed %s, specified %s" % (mode, d + 1, obs[d] if d < len(obs) else "(end)", exp[d] if d < len(exp) else "(end)"))
                if [(e["cb"], e.get("r", 0)) for e in o[0]["log"]] != [(e["cb"], e.get("r", 0)) for e in o[2]["log"]]:
                    problems.append("storing and syntax-only mode delivered different callback sequences")
                got = stored_ids(o[1]["state"], maps)
                if got != set(p["stored"]):
                    problems.append("stored content: extra %s, missing %s" % (sorted(got - set(p["stored"]))[:5], sorted(set(p["stored"]) - got)[:5]))
                if o[3].get("leak"):
                    problems.append("memory leaked (LeakSanitizer)")
                if problems:
                    first = problems[0]
                    sig = re.sub(r"\(.*", "", first)[:70] + " | " + "/".join(sorted({e[0] + ":" + str(e[2]) for e in exp if e[2] != 0}))[:60]
                    rep.violation(sig, "document %s program %s: %s" % (name, p["script"], "; ".join(problems)), {"text": text, "script": p["script"], "specified_log": exp, "specified_stored": p["stored"]})
                else:
                    nok += 1
                    for d in drift:
                        rep.note_drift(d)
            if rr.crashed and len(rr.outs) >= 4 * len(chunk):
                rep.violation("parse process " + sanitizer_signature(rr.stderr), "process ended abnormally on document %s" % name, {"stderr": rr.stderr[-1500:]})
        total += len(programs); total_ok += nok
        covs.append({"document": name, "programs": len(programs), "replayed_ok": nok, "tlc": {k: st[k] for k in ("generated", "distinct", "wall_s")}})
        log("[C15 %s] programs %d ok %d tlc %.1fs" % (name, len(programs), nok, st["wall_s"]))
        if not rep.samples and programs:
            p = programs[len(programs) // 2]
            rep.samples.append({"document": text, "program": p["script"], "predicted_log": p["log"][:14], "rc": p["rc"], "stored": p["stored"]})
    nws = ws_runs(binary, rep)
    total += nws[0]; total_ok += nws[1]
    log("[C15 whitespace runs] documents x modes %d ok %d" % nws)
    nreg = registrations(binary, rep, WS_DOCS + [render(DOCS[nm])[0] for nm in names[:2]])
    total += nreg[0]; total_ok += nreg[1]
    log("[C15 registrations] documents x modes x callback subsets %d ok %d" % nreg)
    return rep.finish({"states": max(tstates, 1), "transitions": max(ttrans, 1), "traces_validated_against_impl": total_ok,
                       "handler_programs": total, "documents": covs, "exhaustive": tier != "quick" or False,
                       "explanation": "every assignment of {continue, skip-current, skip-siblings, end, error 10} to the handler callbacks of each document, replayed in storing and in syntax-only mode"},
                      ["documents are well formed and simply laid out (layout variety is C01's subject)",
                       "end callbacks of skipped entities are left open by the property (lenient comparison, recorded as drift)"])
