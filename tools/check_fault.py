"""C17: every enabled call of every reachable state of CifStore.tla (and CifValue.tla) has fault variants, one per dynamic
allocation the implementation requests while executing it.  TLC enumerates states and calls with the predicted results;
the replay counts the allocations of each selected call and makes each of them fail in turn (library, SQLite and ICU
allocations), comparing the outcome with the specification's fault rule: error code CIF_MEMORY_ERROR / CIF_ERROR, state and
caller's objects as before, the repeated call behaves as the call itself.  Runs under ASan / UBSan / LSan."""
import json, os, random, collections, re
from vlib import *
from store import *
import check_store

FAULT_RCS = (2, 3)
# calls that consume their handle whatever they return: no "unchanged and retry" afterwards, only "no crash, no leak, state is old or new"
CONSUMING = {"cif_destroy", "container_destroy", "loop_destroy", "container_free", "loop_free", "itr_close", "itr_abort"}


def fault_cfg(params):
    cfg = check_store.make_cfg(params, emit=False)
    return cfg.replace("VIEW View", "VIEW View\nINVARIANT EmitFault\nINVARIANT FaultLeavesState")


class FJob:
    """history h leading to state s, target call e with predicted successor s2"""
    __slots__ = ("h", "s", "e", "s2", "same", "conc", "n", "ks", "reuse")

    def __init__(self, h, s, e, s2, same, conc):
        self.h, self.s, self.e, self.s2, self.same, self.conc = h, s, e, s2, same, conc
        self.n, self.ks = 0, []
        self.reuse = False

    def cifs_after(self):
        return sorted(set(self.s["cifs"]) | set(self.s2["cifs"]))

    def iteration(self, k, kinds=7):
        """commands of one fault variant; returns (cmds, index of target, index range of after-projection, index of retry)"""
        c = [{"op": "reset"}] + [self.conc.cmd(x) for x in self.h]
        t = dict(self.conc.cmd(self.e), fail_at=k, fail_kinds=kinds)
        if self.e["op"] == "get_value" and getattr(self, "reuse", False):
            t["reuse"] = 1      # the caller hands in a value object of its own (a list with one member), to be overwritten
        c.append(t)
        it = len(c) - 1
        for cf in self.cifs_after():
            c.append({"op": "project", "cif": cf})
        ir = None
        if self.e["op"] not in CONSUMING and k > 0:
            c.append(dict(self.conc.cmd(self.e), if_fired=1))      # the repetition is skipped when the failure did not fire
            ir = len(c) - 1
            for cf in self.cifs_after():
                c.append({"op": "project", "cif": cf})
        return c, it, ir

    def describe(self):
        return "%s after %s" % (json.dumps(self.conc.cmd(self.e), sort_keys=True), [x["op"] for x in self.h])

    def judge(self, k, outs, it, ir):
        return judge(self, k, outs, it, ir)

    def opname(self):
        return self.e["op"]

    def base_rc(self):
        return self.e.get("rc")


def projections(job, outs, start):
    projs = {}
    for j, cf in enumerate(job.cifs_after()):
        o = outs[start + j] if start + j < len(outs) else {}
        if "state" in o:
            projs[cf] = o["state"]
    return projs


def state_is(job, projs, s, ignore_tx=False):
    try:
        a, b = job.conc.canon_impl(projs, 2), job.conc.canon_model(s, 2)
        if ignore_tx:
            for x in list(a.values()) + list(b.values()):
                x["tx"] = False
        return a == b
    except Exception:
        return False


def state_symptom(job, projs, s, text):
    if state_is(job, projs, s):
        return None
    # an unexpectedly open transaction first: whatever else differs is then uncommitted debris of the same failure
    for c, p in projs.items():
        if p.get("autocommit") == 0 and not (isinstance(s.get("tx"), dict) and s["tx"].get(c)):
            return "transaction left open"
    return text


def judge(job, k, outs, it, ir):
    """returns (fired, site, list of symptoms)"""
    o = outs[it]
    if not o.get("fired"):
        return False, "", []
    site = "%s:%s" % (o.get("akind"), re.sub(r":\d+$", "", o.get("site", "") or "?"))
    sym = []
    rc = o.get("rc")
    after = projections(job, outs, it + 1)
    op = job.e["op"]
    if op in CONSUMING:
        if rc not in (0, None) + FAULT_RCS:
            sym.append("rc=%s" % rc)
        if not (state_is(job, after, job.s) or state_is(job, after, job.s2)):
            sym.append("state is neither the old nor the new one")
        return True, site, sym
    tolerated = rc == job.e["rc"] and state_is(job, after, job.s2) and not [x for x in job.conc.compare(job.e, o) if x[0] == 2]
    if tolerated:
        return True, site, ["~tolerated"]
    if rc not in FAULT_RCS:
        sym.append("rc=%s" % rc)
    x = state_symptom(job, after, job.s, "state changed by the failed call")
    if x:
        sym.append(x)
    if ir is not None:
        r = outs[ir]
        d = [x for x in job.conc.compare(job.e, r) if x[0] == 2]
        if d:
            sym.append("retry: " + re.sub(r"\d+", "N", d[0][1])[:60])
        else:
            x = state_symptom(job, projections(job, outs, ir + 1), job.s2, "state differs from the call's normal result")
            if x:
                sym.append("retry: " + x)
    return True, site, sym


def run_fjob(args):
    binary, job, maxk, rnd_seed = args
    res = {"fired": 0, "tolerated": 0, "viol": [], "n": 0, "sites": set(), "kinds": collections.Counter()}
    # count: second execution in one process (caches warm)
    c1, it, _ = job.iteration(0)
    c2, it2, _ = job.iteration(0)
    rr = run_cifrun(binary, c1 + c2 + [{"op": "reset"}], timeout=300)
    if rr.crashed or len(rr.outs) < len(c1) + len(c2):
        res["viol"].append(("count run", "abnormal termination " + sanitizer_signature(rr.stderr), rr.stderr[-2500:], c1))
        return job, res
    o = rr.outs[len(c1) + it2]
    if hasattr(job, "learn"):
        job.learn(rr.outs[len(c1):], it2)
    if o.get("rc") != job.base_rc():
        # the fault-free call does not behave as specified: C04's / C19's business, not a fault finding
        res["skipped"] = "fault-free rc %s differs from the specification's %s" % (o.get("rc"), job.base_rc())
        return job, res
    n = int(o.get("allocs", 0))
    res["n"] = n
    ks = list(range(1, n + 3))
    if len(ks) > maxk and not getattr(job, "all_k", False):
        rnd = random.Random(rnd_seed)
        head = ks[:maxk // 2]
        ks = head + sorted(rnd.sample(ks[maxk // 2:], maxk - len(head)))
    job.ks = ks
    todo = list(ks)
    restarts = 0
    while todo and restarts < 6:
        cmds, spans = [], []
        for k in todo:
            c, it, ir = job.iteration(k)
            spans.append((len(cmds), it, ir, len(c)))
            cmds += c
        cmds.append({"op": "reset"})
        rr = run_cifrun(binary, cmds, timeout=600)
        done = 0
        for k, (a, it, ir, ln) in zip(todo, spans):
            if a + ln + 1 > len(rr.outs):      # needs the next reset's leak verdict as well
                break
            outs = rr.outs[a:a + ln]
            fired, site, sym = job.judge(k, outs, it, ir)
            leak = rr.outs[a + ln].get("leak")
            if fired:
                res["fired"] += 1
                res["sites"].add(site)
                res["kinds"][site.split(":")[0]] += 1
                if sym == ["~tolerated"]:
                    res["tolerated"] += 1
                    sym = []
                if leak:
                    sym.append("leak")
                if sym:
                    res["viol"].append((site, "; ".join(sym), "", job.iteration(0)[0] + job.iteration(k)[0]))
            done += 1
        if done == len(todo):
            if rr.crashed:
                res["viol"].append(("?", "process ended abnormally: " + sanitizer_signature(rr.stderr), rr.stderr[-2500:], cmds[-40:]))
            break
        k = todo[done]
        a, it, ir, ln = spans[done]
        part = rr.outs[a:]
        site = "?"
        # the site of the injected failure is not printed when the process dies inside the call: ask a count-only twin
        res["viol"].append((site, ("timeout" if rr.timed_out else "abnormal termination " + sanitizer_signature(rr.stderr)) + " (k=%d)" % k, rr.stderr[-2500:], job.iteration(0)[0] + job.iteration(k)[0]))
        res["fired"] += 1
        todo = todo[done + 1:]
        restarts += 1
    return job, res


def store_jobs(tier, rnd):
    """TLC: states of CifStore with every enabled call and its predicted result"""
    configs = [("base", dict(MaxHist=3, VALS='{"u", "s1", "T"}'), 0), ("loops", dict(SCRIPT="ScriptLoop1", MaxHist=1, NAMES='{"_x", "_X", "_y", "_z", "bad"}', MaxNames=2, MaxPkt=2, MaxLast=3, MaxId=2, PVALS='{"s1", "s2", "L"}', VALS='{"u", "s1", "L"}'), 1),
               ("nest", dict(SCRIPT="ScriptNest", MaxHist=1, MaxId=3, CSLOTS="MCCSlots2"), 2),
               # an open iterator that has delivered a packet: update / remove / next that do something
               ("busy", dict(SCRIPT="ScriptBusy1", MaxHist=1, NAMES='{"_x", "_y", "_z", "bad"}', MaxNames=2, MaxPkt=2, MaxLast=3, MaxId=2, PVALS='{"s1", "s2", "L"}', VALS='{"s1"}', FOREIGN="TRUE"), 1)]
    if tier != "quick":
        configs = [("base", dict(MaxHist=4, VALS='{"u", "s1", "T"}'), 0), ("loops", dict(SCRIPT="ScriptLoop", MaxHist=2, NAMES='{"_x", "_X", "_y", "_z", "bad"}', MaxNames=2, MaxPkt=2, MaxLast=4, MaxId=2, PVALS='{"s1", "s2", "L"}', VALS='{"u", "s1", "L"}'), 1),
                   ("nest", dict(SCRIPT="ScriptNest", MaxHist=2, MaxId=3, CSLOTS="MCCSlots2"), 2)]
    per_class = 1 if tier == "quick" else 2
    jobs, covs = [], []
    for name, params, ci in configs:
        out, st, wd = run_tlc("MCStore", fault_cfg(params), "fault-" + name, timeout=3000)
        if not st["ok"]:
            cleanup(wd)
            raise Infra("TLC did not complete on %s: %s" % (name, st["error"][:1500]))
        classes = collections.defaultdict(list)
        nstates = ncalls = 0
        for tag, o in iter_tlc_json(out, ("FSTATE",)):
            nstates += 1
            for c in o["calls"]:
                ncalls += 1
                e = c["e"]
                if e.get("stale"):
                    continue        # calls through handles of vanished objects: best effort only, nothing to hold a fault variant to
                # situation of the named item in the addressed container: does the item exist, does the container have a scalar
                # loop, does that loop hold a packet (first scalar / further scalar / existing item take different paths)
                situ = ()
                if "name" in e and "cont" in e:
                    cid = o.get("hcid", {}).get(e["cont"], 0)
                    nm = e["name"].lower()
                    ls = [l for l in o["s"]["loops"] if l["cid"] == cid and l["cif"] == e.get("cif")]
                    sl = [l for l in ls if l["cat"] == ""]
                    situ = (any(i["norm"] == nm for l in ls for i in l["items"]), bool(sl), bool(sl and sl[0]["last"] > 0))
                vkinds = situ + tuple(sorted({x[1] for x in e.get("packet", [])} | ({e["v"]} if "v" in e else set())))     # value tokens: lists / tables are serialised (more allocations, other failure paths)
                # a category argument is absent (NULL), the reserved empty string, or a string that has to be copied
                if "category" in e:
                    vkinds = vkinds + ("cat:" + ("NULL" if e["category"] == "NULL" else "empty" if e["category"] == "" else "named"),)
                shape = (e["op"], e.get("rc"), c["same"], len(e.get("names", [])), len(e.get("packet", [])), bool(o["s"]["tx"].get(e.get("cif", "c1"))) if isinstance(o["s"]["tx"], dict) else False, vkinds)
                classes[shape].append((o["h"], o["s"], e, c["s2"], c["same"]))
        cleanup(wd)
        for shape in sorted(classes, key=lambda x: json.dumps(x)):
            cand = classes[shape]
            for h, s, e, s2, same in rnd.sample(cand, min(per_class, len(cand))):
                jobs.append(FJob(h, s, e, s2, same, Conc(ci)))
                jobs[-1].reuse = (e["op"] == "get_value" and len(jobs) % 2 == 0)
        covs.append({"config": name, "tlc": {k: st[k] for k in ("generated", "distinct", "wall_s")}, "states": nstates, "enabled_calls": ncalls, "call_classes": len(classes)})
        log("[C17 %s] states %d calls %d classes %d" % (name, nstates, ncalls, len(classes)))
    return jobs, covs


# ---- value objects (CifValue.tla) --------------------------------------------------------------------------------
import check_value as cv


class VFJob:
    """history h (log entries of CifValue.tla) leading to state s; target entry e; s2 the specified state after e"""

    def __init__(self, h, s, e, s2):
        self.h, self.s, self.e, self.s2 = h, s, e, s2
        self.n, self.ks = 0, []
        self.reuse = False

    def opname(self):
        return "%s.%s" % (self.e["op"], self.e.get("f", "")) if self.e.get("f") else self.e["op"]

    def base_rc(self):
        return self.e.get("rc")

    def describe(self):
        return "%s after %s" % (json.dumps(cv.to_cmds(self.e)[0], sort_keys=True), [x.get("f") or x["op"] for x in self.h])

    def iteration(self, k, kinds=7):
        c = [{"op": "reset"}]
        for x in self.h:
            c += cv.to_cmds(x)
        tc = cv.to_cmds(self.e)
        c.append(dict(tc[0], fail_at=k, fail_kinds=kinds))
        it = len(c) - 1
        # after the failed call only what the caller OWNS is inspected (roots, the packet): an interior reference into an
        # object the failed call was allowed to change is not an owned object and may be gone
        self._f1 = [x for x in cv.final_cmds(self.s) if x[1][0] != "ref"]
        self._f2 = cv.final_cmds(self.s2)
        ir = None
        if k > 0:
            c += [x for x, _ in self._f1]
            c.append(dict(tc[0], if_fired=1))      # skipped when the failure did not fire (the call then simply succeeded)
            ir = len(c) - 1
            c += tc[1:]
        c += [x for x, _ in self._f2]
        return c, it, ir

    def _dumps_match(self, outs, start, finals):
        for j, (c, (kind, name, v)) in enumerate(finals):
            o = outs[start + j] if start + j < len(outs) else {}
            if kind == "pk":
                got = sorted([[n, cv.obs_val(x)] for n, x in o.get("pkt", [])], key=lambda x: x[0])
                exp = sorted([[cv.NAMEC.get(n, n), cv.exp_val(x)] for n, x in v], key=lambda x: x[0])
            else:
                got, exp = cv.obs_val(o.get("val")), cv.exp_val(v)
            if got != exp:
                return "%s %s is %s, not %s" % (kind, name, json.dumps(got)[:80], json.dumps(exp)[:80])
            np_ = cv.numb_problem(o.get("val")) if kind != "pk" else next((cv.numb_problem(x) for n, x in o.get("pkt", []) if cv.numb_problem(x)), None)
            if np_:
                return "%s %s: %s" % (kind, name, np_)
        return None

    def judge(self, k, outs, it, ir):
        o = outs[it]
        if not o.get("fired"):
            return False, "", []
        site = "%s:%s" % (o.get("akind"), re.sub(r":\d+$", "", o.get("site", "") or "?"))
        sym = []
        rc = o.get("rc")
        d = self._dumps_match(outs, it + 1, self._f1)
        if rc == self.e.get("rc") and rc not in FAULT_RCS:
            # absorbed?  then everything must be as after the call itself; the harness has repeated the call, which is only
            # meaningful for state-preserving calls, so judge on the first dump set alone when the state should have moved
            if self.s == self.s2 and d is None and not cv.compare(self.e, o):
                return True, site, ["~tolerated"]
            if self.s != self.s2:
                return True, site, ["~tolerated"] if self._dumps_match(outs, it + 1, cv.final_cmds(self.s2)[:len(self._f1)]) is None and len(self._f1) == len(self._f2) else ["rc=%s although an allocation failed and the objects are not as after the call" % rc]
        if rc not in FAULT_RCS:
            sym.append("rc=%s" % rc)
        # The property asks that the caller's objects stay valid and releasable, not that they are unchanged: the dumps
        # after the failed call exercise validity (under ASan), the next reset releases everything (LSan).  Whether
        # their content survived is recorded as drift only.
        self.changed = bool(d)
        if ir is not None and not d:
            r = outs[ir]
            dd = cv.compare(self.e, r)
            if dd:
                sym.append("retry: " + re.sub(r"\d+", "N", dd[0])[:60])
            else:
                ntc = len(cv.to_cmds(self.e))
                d2 = self._dumps_match(outs, ir + ntc, self._f2)
                if d2:
                    sym.append("retry: objects differ from the call's normal result")
        elif ir is not None:
            r = outs[ir]
            if r.get("rc") not in (self.e.get("rc"),) and self.e.get("rc") == 0:
                sym.append("retry: rc=%s" % r.get("rc"))
        return True, site, sym


def vkind(state, e):
    """kind of the value a call operates on and of its argument (numbers with an su are a kind of their own: they own one
    more string), so that the selection covers every kind for every operation"""
    def k(d):
        v = state["roots"].get(d) if d else None
        if not isinstance(v, dict) or v.get("k") in (None, "none"):
            return "-"
        return "numb+su" if v.get("k") == "numb" and "(" in v.get("t", "") else v["k"]
    return (k(e.get("v")), k(e.get("arg")))


def value_jobs(tier, rnd):
    base = dict(slots="Slots2", refs="Refs1", texts=["a"], keys=["k", "e1", "e2", "bad"], pnames=["_x", "_X", "bad"], kinds=["char", "numb", "list", "table", "unk"], maxlist=2, maxentries=2, maxdepth=2, maxhist=3, numtexts=["1.5(2)"])
    plans = [("values", dict(base)), ("packets", dict(base, kinds=["char", "list"], keys=["k"], pnames=["_x", "_X", "_y", "bad"]))]
    if tier != "quick":
        plans = [("values", dict(base, maxhist=4)), ("packets", dict(base, kinds=["char", "list"], keys=["k"], pnames=["_x", "_X", "_y", "bad"], maxhist=4)),
                 ("growth", dict(base, kinds=["list", "char"], keys=["k"], pnames=["_x"], maxlist=5, maxhist=6))]
    per_class = 2 if tier == "quick" else 4
    jobs, covs = [], []
    for name, p in plans:
        out, st, wd = run_tlc("MCValue", cv.value_cfg(p), "vfault-" + name, timeout=3000)
        if not st["ok"]:
            cleanup(wd)
            raise Infra("TLC failed on CifValue %s: %s" % (name, st["error"][:1500]))
        states, edges = {}, []
        classes = collections.defaultdict(list)
        for tag, o in iter_tlc_json(out, ("STATE", "EDGE")):
            if tag == "STATE":
                states[json.dumps(o["h"], sort_keys=True)] = o["s"]
                for e in o["probes"]:
                    if "rc" in e:
                        classes[(e["op"], e.get("f"), e.get("rc"), True, e.get("kind"), bool(e.get("into")), vkind(o["s"], e))].append((o["h"], o["s"], e, o["s"]))
            else:
                edges.append(o)
        cleanup(wd)
        for o in edges:
            h, e = o["h"][:-1], o["h"][-1]
            src = states.get(json.dumps(h, sort_keys=True))
            if src is None or "rc" not in e:
                continue
            classes[(e["op"], e.get("f"), e.get("rc"), False, e.get("kind"), bool(e.get("into")), vkind(src, e))].append((h, src, e, o["s"]))
        for shape in sorted(classes, key=lambda x: json.dumps(x)):
            cand = classes[shape]
            for h, s1, e, s2 in rnd.sample(cand, min(per_class, len(cand))):
                jobs.append(VFJob(h, s1, e, s2))
        covs.append({"config": "value-" + name, "tlc": {k: st[k] for k in ("generated", "distinct", "wall_s")}, "states": len(states), "call_classes": len(classes)})
        log("[C17 value-%s] states %d classes %d" % (name, len(states), len(classes)))
    return jobs, covs


# ---- cif_parse / cif_write ------------------------------------------------------------------------------------------
DOCS = {
    "scalars": "#\\#CIF_2.0\ndata_a\n_x 1.5(2)\n_y 'quoted'\n_z \"\"\"triple\nline\"\"\"\n_u ?\n_n .\n",
    "loop": "#\\#CIF_2.0\ndata_b\nloop_\n_l.a _l.b\n1 one\n2 two\n3 three\n_s plain\n",
    "composite": "#\\#CIF_2.0\ndata_c\n_l [1 2 [a b] {'k':v}]\n_t {'a':1 'b':[x y]}\n_f\n;text field\nsecond line\n;\nsave_f1\n_in 3\nsave_\n",
    "cif1-defect": "data_d\n_a 1\n_a 2\nloop_\n_p _q\n1 2 3\n_e 'unterminated\n",
}


class DocFJob:
    """cif_parse of a document into a new CIF, or cif_write of the CIF parsed from it, with the k-th allocation failing"""

    def __init__(self, name, text, mode, kinds=7):
        self.name, self.text, self.mode, self.kinds = name, text, mode, kinds      # kinds: 1 the library's own requests, 6 SQLite's and ICU's
        self.n, self.ks = 0, []
        self.reuse = False
        self.base = None

    def opname(self):
        return "cif_" + self.mode

    def base_rc(self):
        return self._rc0

    def describe(self):
        return "%s of document %r (%s)" % (self.opname(), self.name, {1: "library allocations", 6: "SQLite / ICU allocations"}.get(self.kinds, "all allocations"))

    def _parse(self, **kw):
        # mode parse-h: with a handler that continues everywhere and, like an application, queries the handles it is
        # given (container code, loop category and names, packet items, values) - public calls made while cif_parse runs
        return dict({"op": "parse", "text": self.text, "cif": "c1", "errors": "accept"}, **(dict(kw, handler=1) if self.mode == "parse-h" else kw))

    def iteration(self, k, kinds=None):
        kinds = self.kinds
        if self.mode in ("parse", "parse-h"):
            c = [{"op": "reset"}, self._parse(fail_at=k, fail_kinds=kinds), {"op": "project", "cif": "c1"}, {"op": "walk", "cif": "c1"}, {"op": "cif_destroy", "cif": "c1"}]
            it, ir = 1, None
            if k > 0:
                c += [self._parse(if_fired=1), {"op": "project", "cif": "c1"}]
                ir = 5
            return c, it, ir
        c = [{"op": "reset"}, self._parse(), {"op": "project", "cif": "c1"}, {"op": "write", "cif": "c1", "fail_at": k, "fail_kinds": kinds}, {"op": "project", "cif": "c1"}]
        it, ir = 3, None
        if k > 0:
            c += [{"op": "write", "cif": "c1", "if_fired": 1}]
            ir = 5
        return c, it, ir

    def learn(self, outs, it):
        o = outs[it]
        self._rc0 = o.get("rc")
        if self.mode in ("parse", "parse-h"):
            self.base = {"rc": o.get("rc"), "errs": [e.get("code") for e in o.get("log", []) if e.get("cb") == "error"], "state": outs[it + 1].get("state")}
        else:
            self.base = {"rc": o.get("rc"), "hex": o.get("hex"), "state": outs[it - 1].get("state")}

    def judge(self, k, outs, it, ir):
        o = outs[it]
        if not o.get("fired"):
            return False, "", []
        site = "%s:%s" % (o.get("akind"), re.sub(r":\d+$", "", o.get("site", "") or "?"))
        sym = []
        rc = o.get("rc")
        if self.mode in ("parse", "parse-h"):
            st = outs[it + 1].get("state")
            if rc == self.base["rc"] and st == self.base["state"]:
                return True, site, ["~tolerated"]
            if rc not in FAULT_RCS:
                sym.append("rc=%s" % rc)
            if ir is not None:
                r = outs[ir]
                if r.get("rc") != self.base["rc"] or outs[ir + 1].get("state") != self.base["state"]:
                    sym.append("retry: differs from the fault-free parse (rc=%s)" % r.get("rc"))
        else:
            st = outs[it + 1].get("state")
            if rc == self.base["rc"] and o.get("hex") == self.base["hex"] and st == self.base["state"]:
                return True, site, ["~tolerated"]
            if rc not in FAULT_RCS:
                sym.append("rc=%s" % rc)
            if st != self.base["state"]:
                sym.append("transaction left open" if (st or {}).get("autocommit") == 0 else "CIF changed by the failed cif_write")
            if ir is not None:
                r = outs[ir]
                if r.get("rc") != self.base["rc"] or r.get("hex") != self.base["hex"]:
                    sym.append("retry: output differs from the fault-free one (rc=%s)" % r.get("rc"))
        return True, site, sym


class CallFJob:
    """one call on a value object (prepared by `prep`), with the k-th allocation failing; then a dump of the object (it must
    stay valid) and the repetition of the call"""

    def __init__(self, name, prep, call, kinds=7, all_k=False):
        self.name, self.prep, self.call, self.kinds, self.all_k = name, prep, call, kinds, all_k
        self.n, self.ks = 0, []

    def opname(self):
        return "%s.%s" % (self.call["op"], self.call["f"]) if self.call.get("f") else self.call["op"]

    def base_rc(self):
        return self._rc0

    def describe(self):
        return "%s: %s" % (self.name, json.dumps(self.call, sort_keys=True)[:200])

    def _look(self):
        return {"op": "value_dump", "v": self.call["v"]} if "v" in self.call else {"op": "project", "cif": "c"}

    def iteration(self, k, kinds=None):
        c = [{"op": "reset"}] + self.prep + [dict(self.call, fail_at=k, fail_kinds=self.kinds)]
        it = len(c) - 1
        c.append(self._look())
        ir = None
        if k > 0:
            c.append(dict(self.call, if_fired=1)); ir = len(c) - 1
            c.append(self._look())
        return c, it, ir

    def learn(self, outs, it):
        self._rc0 = outs[it].get("rc")
        self.base = outs[it + 1].get("val", outs[it + 1].get("state"))

    def judge(self, k, outs, it, ir):
        o = outs[it]
        if not o.get("fired"):
            return False, "", []
        site = "%s:%s" % (o.get("akind"), re.sub(r":\d+$", "", o.get("site", "") or "?"))
        rc, sym = o.get("rc"), []
        seen = lambda o_: o_.get("val", o_.get("state"))
        if rc == self._rc0 and seen(outs[it + 1]) == self.base:
            return True, site, ["~tolerated"]
        if rc not in FAULT_RCS:
            sym.append("rc=%s" % rc)
        if ir is not None:
            r = outs[ir]
            if r.get("rc") != self._rc0 or seen(outs[ir + 1]) != self.base:
                sym.append("retry: differs from the fault-free call (rc=%s)" % r.get("rc"))
        return True, site, sym


def call_jobs(tier):
    """value calls outside CifValue.tla's action set: number (re)initialisation and the coercions that allocate"""
    from check_numb import hex_of
    mk = [{"op": "value_create", "v": "x", "kind": 5}]
    num = lambda d, su: {"val": hex_of(d), "su": hex_of(su)}
    jobs = [CallFJob("autoinit", mk, dict({"op": "value_op", "v": "x", "f": "autoinit_numb", "rule": 19}, **num(1.2345, 0.012))),
            CallFJob("autoinit exact", mk, dict({"op": "value_op", "v": "x", "f": "autoinit_numb", "rule": 9}, **num(-250.0, 0.0))),
            CallFJob("init", mk, dict({"op": "value_op", "v": "x", "f": "init_numb", "scale": 3, "mlz": 5}, **num(0.00123, 0.0002))),
            CallFJob("init sci", mk, dict({"op": "value_op", "v": "x", "f": "init_numb", "scale": -2, "mlz": 0}, **num(123456.0, 300.0))),
            CallFJob("get_number of a string", [{"op": "value_build", "v": "x", "val": {"k": "char", "t": "1.50(3)", "q": 0}}], {"op": "value_op", "v": "x", "f": "get_number"}),
            CallFJob("get_su of a string", [{"op": "value_build", "v": "x", "val": {"k": "char", "t": "-2.5e3(12)", "q": 1}}], {"op": "value_op", "v": "x", "f": "get_su"}),
            CallFJob("get_text", [{"op": "value_build", "v": "x", "val": {"k": "numb", "t": "1.50(3)"}}], {"op": "value_op", "v": "x", "f": "get_text"}),
            CallFJob("set_quoted of a placeholder", [{"op": "value_create", "v": "x", "kind": 4}], {"op": "value_op", "v": "x", "f": "set_quoted", "q": 1}),
            CallFJob("init_char", mk, {"op": "value_op", "v": "x", "f": "init_char", "text": "some text"})]
    # tables large enough for their hash table to enlarge its bucket array while entries are added (around the 180th entry):
    # every one of the library's allocations of the call is failed in turn
    big = {"k": "table", "e": [["key%d" % i, {"k": "numb", "t": str(i)}] for i in range(200)]}
    jobs += [CallFJob("clone of a 200-entry table", [{"op": "value_build", "v": "x", "val": big}], {"op": "value_op", "v": "x", "f": "clone", "out": "y"}, kinds=1, all_k=True),
             CallFJob("get_value of a stored 200-entry table", [{"op": "cif_create", "cif": "c"}, {"op": "create_block", "cif": "c", "code": "b", "h": "h"}, {"op": "set_value", "cont": "h", "name": "_t", "v": big}],
                      {"op": "get_value", "cont": "h", "name": "_t"}, kinds=1, all_k=True)]
    return jobs


def doc_jobs(tier):
    # the library's own requests are few enough to be failed one by one; SQLite's and ICU's (thousands per document) are
    # sampled up to the tier's bound
    return [DocFJob(n, t, m, kinds) for n, t in DOCS.items() for m in ("parse", "write", "parse-h") for kinds in (1, 6)
            if not (m == "write" and n == "cif1-defect") and not (m == "parse-h" and n not in ("loop", "composite"))]


def c17(tier, replay=None):
    rep = Report("C17", tier, "fault_enumeration")
    binary = build("fault")
    rnd = random.Random(SEED)
    jobs, covs = store_jobs(tier, rnd)
    vjobs, vcovs = value_jobs(tier, rnd)
    jobs += vjobs
    covs += vcovs
    jobs += doc_jobs(tier)
    jobs += call_jobs(tier)
    maxk = 160 if tier == "quick" else 500
    results = pmap(run_fjob, [(binary, j, maxk, SEED + i) for i, j in enumerate(jobs)])
    tot = collections.Counter()
    sites = set()
    opsites = set()
    opcov = collections.Counter()
    skipped = 0
    for job, res in results:
        if "skipped" in res:
            skipped += 1
            rep.note_drift({"call": job.describe(), "why": res["skipped"]})
            continue
        tot["variants"] += res["fired"]
        tot["tolerated"] += res["tolerated"]
        tot["allocations_counted"] += res["n"]
        for k, v in res["kinds"].items():
            tot["kind_" + k] += v
        sites |= res["sites"]
        opsites |= {(job.opname(), x) for x in res["sites"]}
        opcov["%s:%s" % (job.opname(), job.base_rc())] += res["fired"]
        for site, sym, stderr, cmds in res["viol"]:
            sig = "%s fault at %s: %s" % (job.opname(), site, re.sub(r" \(k=\d+\)", "", sym))
            rep.violation(sig, "%s\n  call: %s\n%s" % (sym, job.describe(), stderr), {"commands": cmds})
    log("[C17] jobs %d (skipped %d) variants %d tolerated %d sites %d" % (len(jobs), skipped, tot["variants"], tot["tolerated"], len(sites)))
    if jobs:
        rep.samples.append({"call": jobs[0].describe(), "allocations": results[0][1]["n"]})
    return rep.finish({"evaluations": tot["variants"], "distinct_nontrivial": len(opsites),
                       "rule": "one evaluation = one call executed with one of its allocation requests failing (fired); distinct = different (call, allocation site function) pair; all are non-trivial (a failure was actually injected)",
                       "fault_points": tot["variants"], "configs": covs, "calls_swept": len(jobs) - skipped, "variants_by_allocator": {k[5:]: v for k, v in tot.items() if k.startswith("kind_")},
                       "absorbed_failures": tot["tolerated"], "distinct_allocation_sites": len(sites), "variants_by_call": dict(sorted(opcov.items())),
                       "explanation": "for each selected (state, call) of CifStore.tla: allocations counted in a warm process, then each allocation index failed in turn (all indices up to %d, beyond that half of them sampled); outcome, projection before / after, retry and final projection compared with the specification" % maxk},
                      ["one failing allocation per call (the property's quantifier); SQLite and ICU failures are injected through SQLITE_CONFIG_MALLOC / u_setMemoryFunctions",
                       "calls that consume their handle (destroy / free / close / abort) are only required not to crash or leak and to leave the old or the new state",
                       "a failure the implementation absorbs (call completes exactly as specified) is accepted and counted"])
