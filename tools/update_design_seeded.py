#!/usr/bin/env python3
"""Rewrites section 10 of DESIGN.md from seeded/*/meta.json."""
import subprocess, os, re, json, glob
V = os.path.dirname(os.path.dirname(os.path.abspath(__file__)))
table = subprocess.run([os.path.join(V, "tools", "seeded_table.py")], capture_output=True, text=True).stdout
metas = [json.load(open(p)) for p in glob.glob(os.path.join(V, "seeded", "*", "meta.json"))]
n = len(metas)
missed_first = sum(1 for m in metas if "MISSED" in m.get("history", ""))
final_missed = [os.path.basename(os.path.dirname(p)) for p in glob.glob(os.path.join(V, "seeded", "*", "meta.json"))
                if not any(r["exit"] == 1 for c, r in json.load(open(p)).get("results", {}).items() if c == json.load(open(p))["property"])]
sec = """

## 10. Seeded changes and what catches them

%d changes to the library were written by fresh sub-agents. Each agent was given only the text of one
property (statement, quantifier, anchors) and its own scratch git worktree of `/repo` under `/tmp`; it saw
nothing of `/verif`. Its task: one small, realistic change that breaks the property, still compiles, keeps
the whole test suite passing (74/74) and needs something specific to manifest; plus a demonstration
program. Second and third agents for the same property were told which mechanisms had already been used.
I confirmed each change by applying it (`git -C /repo apply`), running the checks, and restoring the tree
(`tools/seeded.py run <name> <checks>`; nothing of this is committed in `/repo`). Each change is kept in
`seeded/<name>/` (`patch.diff`, `demonstration.c`, the agent's `NOTES.md`, `meta.json` with the observed
outcomes).

**Outcome.** On the first trial %d of the %d changes were caught by the quick check of their property; %d
were missed. Every miss was analysed and answered by extending the specification or the family of inputs
the change's *class* belongs to (never by adding the change's own demonstration input), after which the
change is caught; the notes below say what was missing and what was added. Three misses were caused by
my own known-finding entries being too broad (a new failure inside the class of an open finding was
absorbed by it): those entries now enumerate the exact failing cases (`known_cases/*.json`). One miss
(C03-c) was caused by the monitor being more lenient than the property (CIF_ERROR without a callback was
accepted although the harness could not, at that time, produce an I/O failure). Writing the strengthening families also
exposed six further genuine defects of the unchanged library (section 7.1, the last entries).
%s
The table shows the outcome with the final machinery (quick tier; "missed" in a column of *another*
property's check is expected and only recorded for information).

%s
""" % (n, n - missed_first, n, missed_first, ("Still missed by the check of its own property at the end: " + ", ".join(final_missed) + ".\n") if final_missed else "", table)
p = os.path.join(V, "DESIGN.md")
s = open(p).read()
i = s.find("\n## 10. Seeded changes and what catches them")
if i >= 0:
    s = s[:i].rstrip("\n") + "\n"
s = s.rstrip("\n") + "\n" + sec
open(p, "w").write(s)
print("section 10 written: %d changes, %d missed at first, final misses: %s" % (n, missed_first, final_missed))
