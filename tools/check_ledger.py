"""C16: ownership ledger, process environment and execution outcome over the histories of the other properties' drivers.

The drivers of the other checks are executed as sub-runs with cifrun in ledger mode (their own verdicts are ignored here);
every batch leaves an event log that TLC validates against CifLedger.tla."""
import json, os, glob, subprocess, sys, re
from vlib import *

# (property driver, tier for the sub-run, environment variation applied before the history)
FE = {"nearest": 0, "down": 0x400, "up": 0x800, "zero": 0xC00}
QUICK = [("C04", None), ("C05", None), ("C19", None), ("C07", None), ("C12", None), ("C02", None), ("C13", None), ("C03", None), ("C10", None),
         ("C14", None), ("C10", {"round": FE["up"]}), ("C10", {"round": FE["zero"]}), ("C09", None)]
THOROUGH = QUICK + [("C18", None), ("C06", None), ("C15", None), ("C01", None), ("C08", None), ("C11", None), ("C10", {"round": FE["down"]}), ("C07", {"round": FE["down"]}),
                    ("C02", {"round": FE["up"]}), ("C19", {"round": FE["zero"]})]


def subrun(args):
    prop, envvar, ldir, jobs, triple = args
    d = os.path.join(ldir, "%s-%s" % (prop, "default" if not envvar else "round%x" % envvar.get("round", 0)))
    os.makedirs(d, exist_ok=True)
    e = dict(os.environ)
    e.update(VERIF_SUBRUN="1", VERIF_LEDGER_DIR=d, VERIF_JOBS=str(jobs), VERIF_LEDGER_TRIPLE=str(triple), VERIF_TIER="quick")
    if envvar:
        e["VERIF_LEDGER_ENV"] = json.dumps(envvar)
    t0 = time.time()
    try:
        p = subprocess.run([os.path.join(VERIF, "tools", "vcheck"), prop, "--tier", "quick"], capture_output=True, text=True, env=e, timeout=3000)
        rc = p.returncode
        tail = (p.stderr or "")[-600:]
    except subprocess.TimeoutExpired:
        rc, tail = -9, "timeout"
    return prop, envvar, d, rc, round(time.time() - t0, 1), tail


def validate_file(path):
    out, st, wd = run_tlc("CifLedger", "SPECIFICATION Spec\nCHECK_DEADLOCK FALSE\n", "ledger", workers=1, timeout=1500, env={"TRACE": path}, heap="3g")
    txt = open(out, errors="replace").read()
    cleanup(wd)
    accepted = '<<"WALKED", ' in txt and st["ok"]
    breaches = [int(m.group(1)) for m in re.finditer(r'<<"BREACH", (\d+)>>', txt)]
    return path, accepted, breaches, st


def c16(tier, replay=None):
    rep = Report("C16", tier, "exploration")
    build("asan")
    ldir = scratch_dir("ledger")
    plan = QUICK if tier == "quick" else THOROUGH
    par = 5
    jobs = max(2, NCPU // par)
    res = pmap(subrun, [(p, ev, ldir, jobs, 6) for p, ev in plan], jobs=par)
    runs = []
    for prop, envvar, d, rc, wall, tail in res:
        runs.append({"driver": prop, "env": envvar or "default", "rc": rc, "wall_s": wall})
        log("[C16] sub-run %s %s rc=%s %.0fs" % (prop, envvar or "", rc, wall))
        if rc not in (0, 1):
            raise Infra("sub-run %s failed (rc %s): %s" % (prop, rc, tail))
    # split the event logs into chunks on execution boundaries
    chunks = []
    nev = {"call": 0, "reset": 0, "mark": 0, "end": 0}
    quiet = 0
    for d in sorted(glob.glob(os.path.join(ldir, "*"))):
        cur, k = [], 0
        for f in sorted(glob.glob(os.path.join(d, "events-*.ndjson"))):
            for line in open(f):
                cur.append(line)
                e = json.loads(line)
                nev[e["e"]] += 1
                quiet += e.get("q", 0)
                if e["e"] == "end" and len(cur) >= 20000:
                    pth = os.path.join(d, "chunk-%d.ndjson" % k); k += 1
                    open(pth, "w").writelines(cur); chunks.append(pth); cur = []
        if cur:
            pth = os.path.join(d, "chunk-%d.ndjson" % k)
            open(pth, "w").writelines(cur); chunks.append(pth)
    nbreach = 0
    outcomes = {}
    digests = set()
    sample = None
    for path, accepted, breaches, st in pmap(validate_file, chunks, jobs=max(2, NCPU // 2)):
        if not accepted:
            raise Infra("ledger log %s was not walked to its end: %s" % (path, st.get("error", "")[:500]))
        evs = [json.loads(x) for x in open(path)]
        cur = []
        for e in evs:
            if e["e"] == "end":
                outcomes[e["out"]] = outcomes.get(e["out"], 0) + 1
                if any(x[1] for x in cur):
                    digests.add(hashlib.sha1(json.dumps(cur).encode()).hexdigest())
                    if sample is None and 3 <= len(cur) <= 40:
                        sample = {"driver": os.path.basename(os.path.dirname(path)), "ledger_events": ["%s +%d -%d" % x for x in cur]}
                cur = []
            elif e["e"] in ("call", "reset"):
                cur.append((e.get("op"), len(e.get("a", [])), len(e.get("r", []))))
        drv = os.path.basename(os.path.dirname(path))
        for b in breaches:
            e = evs[b - 1]
            nbreach += 1
            info = {}
            bp = os.path.join(os.path.dirname(path), "batch-%s.json" % e.get("b"))
            if os.path.exists(bp):
                info = json.load(open(bp))
            if e["e"] == "end":
                sig = "abnormal end: " + (e.get("sig") or "?")
                what = "driver %s: execution ended with %s after %d commands\n%s" % (drv, e["out"], e.get("n", 0), info.get("stderr", "")[:2500])
            elif e["e"] == "reset" and e.get("leak"):
                sig = "leak: " + sanitizer_signature(info.get("stderr", ""))
                what = "driver %s: memory still allocated and unreachable after everything was released\n%s" % (drv, info.get("stderr", "")[:2500])
            elif e.get("env"):
                sig = "environment changed by %s" % e.get("op")
                what = "driver %s: %s changed the process environment: %s" % (drv, e.get("op"), e.get("envs"))
            elif e["e"] == "mark":
                sig = "allocation growth: driver %s" % drv.split("-")[0]
                what = "driver %s: the same history needed more live memory on its third execution than on its second" % drv
            else:
                sig = "ledger: %s in %s" % (e["e"], e.get("op"))
                what = "driver %s: ledger rule broken at %r" % (drv, e)
            rep.violation(sig, what, {"driver": drv, "event": e, "cmds": info.get("cmds")})
    if sample:
        rep.samples.append(sample)
    cov = {"evaluations": sum(outcomes.values()), "distinct_nontrivial": len(digests),
           "rule": "one evaluation = one cifrun process executing a batch of histories of another property's driver in ledger mode; non-trivial = at least one object changed hands; distinct = different sequence of (call, objects acquired, objects released)",
           "sub_runs": runs, "events": nev, "calls_without_ledger_effect": quiet, "executions_by_outcome": outcomes, "chunks_validated_by_tlc": len(chunks), "breaches": nbreach}
    log("[C16] events %s, quiet calls %d, outcomes %s, breaches %d" % (nev, quiet, outcomes, nbreach))
    cleanup(ldir)
    return rep.finish(cov, ["ASan / UBSan / LSan (clang 14) decide memory errors, undefined behaviour and unreachable allocations; TLA+ only sees their verdict as the execution's outcome",
                            "histories are those of the other properties' quick drivers; rounding-mode variations are applied to the number / value / writer drivers; the only non-C numeric locale available offline is C.utf8",
                            "growth probe: every 6th batch is executed three times in one process and the live byte counts after the second and third execution are compared"])
