#!/usr/bin/env python3
"""Fills the last column of the table in DESIGN.md section 0.3 from the committed evidence files (quick tier)."""
import json, os, re
V = os.path.dirname(os.path.dirname(os.path.abspath(__file__)))
FMT = {
    "C01": "{documents} documents ({palette_values} palette values)",
    "C02": "{cases} CIFs written and re-parsed ({descriptor_strings} descriptor strings)",
    "C13": "{cases} CIFs written and re-parsed",
    "C03": "{inputs} inputs, {evaluations} executions, {events_validated_by_tlc} events",
    "C04": "{states} states, {transitions} transitions, {api_calls_executed} calls",
    "C05": "{states} states, {transitions} transitions, {api_calls_executed} calls",
    "C06": "{states} states, {transitions} transitions, {api_calls_executed} calls",
    "C07": "{cases} (value, write route, read route) cases",
    "C08": "{variants} variants of {bases} documents",
    "C09": "{validity_cases} validity cases, {pairs} pairs",
    "C10": "{syntax_strings} strings, {exact_parse_records} + {exact_format_records} exact records",
    "C11": "{cells} cells",
    "C12": "{documents} documents, {defect_classes} classes",
    "C14": "{handler_programs} programs",
    "C15": "{handler_programs} programs",
    "C16": "{evaluations} executions ({distinct_nontrivial} distinct)",
    "C17": "{calls_swept} calls, {fault_points} fault points, {distinct_allocation_sites} sites",
    "C18": "{strings} strings x {argument_sets} argument sets, {readback_documents} read-backs",
    "C19": "{states} states, {transitions} transitions",
    "C20": "{codes_checked} codes",
}
ev = {}
for pid in FMT:
    f = os.path.join(V, "evidence", pid + ".json")
    if os.path.exists(f):
        e = json.load(open(f))
        if e.get("tier") == "quick":
            ev[pid] = e
p = os.path.join(V, "DESIGN.md")
lines = open(p).read().split("\n")
out, n = [], 0
intable = False
for ln in lines:
    if ln.startswith("| id | module(s) |"):
        intable = True
    elif intable and not ln.startswith("|"):
        intable = False
    if intable and re.match(r"\| C\d\d", ln):
        cells = ln.split(" | ")
        ids = re.findall(r"C\d\d", cells[0])
        parts = []
        for pid in ids:
            if pid in ev:
                c = ev[pid]["coverage"]
                class D(dict):
                    def __missing__(self, k): return "?"
                txt = FMT[pid].format_map(D({k: v for k, v in c.items() if not isinstance(v, (dict, list))}))
                parts.append(("%s: " % pid if len(ids) > 1 else "") + txt + " (%.0f s)" % ev[pid].get("wall_s", 0))
        if parts:
            cells[-1] = "; ".join(parts) + " |"
            ln = " | ".join(cells)
            n += 1
    out.append(ln)
open(p, "w").write("\n".join(out))
print("rows updated:", n)
