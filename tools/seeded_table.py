#!/usr/bin/env python3
"""Prints DESIGN.md section 10 (seeded changes and observed outcomes) from seeded/*/meta.json."""
import json, os, glob, re
V = os.path.dirname(os.path.dirname(os.path.abspath(__file__)))
rows, hist = [], []
for d in sorted(glob.glob(os.path.join(V, "seeded", "*"))):
    m = json.load(open(os.path.join(d, "meta.json")))
    patch = open(os.path.join(d, "patch.diff")).read()
    files = sorted(set(re.findall(r"^\+\+\+ b/(\S+)", patch, re.M)))
    funcs = [f for f in dict.fromkeys(re.findall(r"^@@.*@@ .*?(\w+)\(", patch, re.M))]
    res = []
    for c, r in sorted(m.get("results", {}).items()):
        res.append("%s %s" % (c, "caught" if r["exit"] == 1 else ("missed" if r["exit"] == 0 else "broken run")))
    name = os.path.basename(d)
    rows.append("| %s | %s | `%s` %s | %s | %s |" % (name, m["property"], ", ".join(f.replace("src/", "") for f in files), ("(" + ", ".join(funcs[:2]) + ")") if funcs else "", m.get("summary", ""), "; ".join(res)))
    if m.get("history"):
        hist.append("* **%s** — %s" % (name, m["history"]))
print("| change | property | where | what it does | outcome of the quick checks (final machinery) |\n|---|---|---|---|---|")
print("\n".join(rows))
print()
print("\n".join(hist))
