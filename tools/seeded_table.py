#!/usr/bin/env python3
"""Prints the markdown table of seeded changes and observed outcomes (for DESIGN.md section 10)."""
import json, os, glob, re
V = os.path.dirname(os.path.dirname(os.path.abspath(__file__)))
rows = []
for d in sorted(glob.glob(os.path.join(V, "seeded", "*"))):
    m = json.load(open(os.path.join(d, "meta.json")))
    patch = open(os.path.join(d, "patch.diff")).read()
    files = sorted(set(re.findall(r"^\+\+\+ b/(\S+)", patch, re.M)))
    funcs = sorted(set(re.findall(r"^@@.*@@ .*?(\w+)\(", patch, re.M)))
    res = []
    for c, r in sorted(m.get("results", {}).items()):
        res.append("%s: %s" % (c, "caught (%d)" % r["violations"] if r["exit"] == 1 else ("missed" if r["exit"] == 0 else "broken")))
    rows.append("| %s | %s | %s | %s | %s |" % (os.path.basename(d), m["property"], ", ".join(files) + " (" + ", ".join(funcs[:2]) + ")", m.get("summary", ""), "; ".join(res)))
print("| change | property | where | what it does | quick checks |\n|---|---|---|---|---|")
print("\n".join(rows))
