"""C02 / C13: cases (CIFs parsed from CifDoc documents, CIFs built through the API around descriptor strings) are written
by cif_write, re-parsed, and the recorded facts validated by TLC against CifRoundTrip.tla."""
import zlib, json, os, collections, random
from vlib import *
from check_doc import (PALETTE, ALLPRES, ALLSEPS, CTX2, run_doc_tlc, render, observed_content)
from check_quote import py_adm

CIF11_SET = set(chr(c) for c in range(32, 127)) | {"\t", "\n"}


def cif2_char_ok(c):
    o = ord(c)
    if o in (9, 10):
        return True
    if o < 32 or 127 <= o < 160 or 0xD800 <= o <= 0xDFFF or 0xFDD0 <= o <= 0xFDEF or (o & 0xFFFE) == 0xFFFE or o == 0xFEFF:
        return False
    return True


CHAR_BOUNDS = [0x01, 0x08, 0x09, 0x0B, 0x0C, 0x0E, 0x1F, 0x20, 0x7E, 0x7F, 0x80, 0x85, 0x9F, 0xA0, 0xFF, 0x100, 0x2028, 0xD7FF, 0xE000, 0xFDCF, 0xFDD0, 0xFDEF, 0xFDF0,
               0xFEFF, 0xFFFD, 0xFFFE, 0xFFFF, 0x10000, 0x1FFFD, 0x1FFFE, 0x1FFFF, 0x10FFFD, 0x10FFFF]


def proj_to_content(state):
    """SQL projection -> the record shape of CifRoundTrip.tla; also collects every string / name / key"""
    strings, names, keys = [], [], []

    def val(v):
        k = v.get("k")
        if k in ("char", "numb"):
            strings.append(v.get("t", ""))
            return {"k": k, "t": v.get("t", ""), "q": v.get("q", 0)}
        if k == "list":
            return {"k": "list", "e": [val(x) for x in v.get("e", [])]}
        if k == "table":
            for x in v.get("e", []):
                keys.append(x[0])
            return {"k": "table", "e": [[x[0], val(x[1])] for x in v.get("e", [])]}
        return {"k": k}

    def cont(c):
        names.append(c["code"])
        d = {"code": c["norm"], "items": [], "loops": [], "frames": [cont(f) for f in c["frames"]]}
        for l in c["loops"]:
            nm = [i[0] for i in l["items"]]
            names.extend(i[1] for i in l["items"])
            rows = collections.defaultdict(dict)
            for r, n, v in l["rows"]:
                rows[r][n] = val(v)
            if l["cat"] == "":
                for r in rows.values():
                    for n, v in r.items():
                        d["items"].append({"name": n, "v": v})
                for n in nm:
                    if not any(n in r for r in rows.values()):
                        d["loops"].append({"names": [n], "packets": []})
            else:
                d["loops"].append({"names": nm, "packets": [[rows[r].get(n, {"k": "unk"}) for n in nm] for r in sorted(rows)]})
        return d
    content = {"blocks": [cont(b) for b in state["blocks"]]}
    return content, strings, names, keys


def flags(strings, names, keys):
    allstr = strings + names + keys
    must = all(cif2_char_ok(c) for s in allstr for c in s)
    mayrefuse = any((not (py_adm(k)[0] & {"sq", "dq", "tsq", "tdq"})) or len(k) > 2040 or "\n" in k and len(k) > 2000 for k in keys)
    expr11 = all(c in CIF11_SET for s in allstr for c in s) and not any("\n;" in s for s in strings)
    return must, mayrefuse, expr11


def has_nested_frames(content):
    return any(f["frames"] for b in content["blocks"] for f in b["frames"])


def run_cases(binary, cases, ver, chunk=150):
    """cases: list of (label, build commands (the CIF must end up under key 'c')); returns records for the monitor"""
    def run_chunk(ch):
        cmds = []
        spans = []
        for label, build in ch:
            reparse = {"cif": "r", "errors": "accept", "opts": {"max_frame_depth": -1}}
            if ver == 1:
                reparse["opts"] = {"prefer_cif2": -1, "fold": 1, "prefix": 1, "max_frame_depth": -1}
            # CIF 2.0 is what cif_write produces by default: it is requested in one of three ways, chosen by the case's label -
            # cif_version 2, the default options object (cif_version 0), no options object at all
            wr = {"op": "write", "cif": "c", "version": ver, "bytes": 0, "reparse": reparse}
            if ver == 2:
                form = zlib.crc32(str(label).encode()) % 3
                if form == 1: wr["version"] = 0
                elif form == 2: wr["noopts"] = 1
            cs = list(build) + [{"op": "project", "cif": "c"}, wr,
                                {"op": "project", "cif": "r"}, {"op": "reset"}]
            spans.append((len(cmds), len(cmds) + len(cs), len(build)))
            cmds += cs
        return ch, spans, run_cifrun(binary, cmds, timeout=900)
    out = []
    chunks = [cases[i:i + chunk] for i in range(0, len(cases), chunk)]
    for ch, spans, rr in pmap(run_chunk, chunks):
        for (label, build), (a, b, nb) in zip(ch, spans):
            if b > len(rr.outs):
                out.append((label, build, None, rr.stderr[:4000] if a <= len(rr.outs) else ""))
                continue
            o = rr.outs[a:b]
            out.append((label, build, o[nb:], None))
    # executions lost behind a crash: re-run alone
    lost = [(label, build) for label, build, o, err in out if o is None and err == ""]
    if lost:
        redo = {}
        for ch, spans, rr in pmap(run_chunk, [[x] for x in lost]):
            (label, build), (a, b, nb) = ch[0], spans[0]
            redo[label] = (rr.outs[nb:b] if b <= len(rr.outs) else None, rr.stderr[:4000])
        out = [(label, build, redo[label][0], None if redo[label][0] is not None else redo[label][1]) if (o is None and err == "") else (label, build, o, err) for label, build, o, err in out]
    return out


# long lines without blanks: the writer has to fold hard at the target length (2040) - what stands there matters
HARDFOLD = ["a" * 2040 + ";" + "a" * 959, "a" * 2039 + ";" + "a" * 960, "a" * 2041 + ";" + "a" * 958, "a" * 2040 + ";;;" + "a" * 2037 + ";" + "a" * 500,
            "a" * 2039 + "\U0001d11e" * 4 + "a" * 900, "a" * 2040 + "\\" + "a" * 900, "a" * 2040 + "'" + "a" * 900, "a" * 2034 + " " + "a" * 900, "a" * 4090 + ";" + "a" * 30]


RESERVED_LIKE = re.compile(r"^(data_|save_|loop_|stop_|global_|[?.]$|[_$#])", re.I)


def _textdelim_family():
    """Multi-line values and where a line begins with a semicolon: every choice of which of the lines 2..n (n = 3, 4) begin
    with ';', for values that may stand in a triple-quoted string and for values that can only stand in a text field
    (both triple delimiters occur in one of the lines): whether the field must be prefixed depends on ANY such line."""
    out = []
    for n in (3, 4):
        for mask in range(1, 1 << (n - 1)):
            for force_at in (None, 0, n - 1):
                lines = []
                for i in range(n):
                    body = "l%d" % i + ("'\'\'x\"\"\"" if force_at == i else "")
                    lines.append((";" if i > 0 and (mask >> (i - 1)) & 1 else "") + body)
                out.append("\n".join(lines))
    return out


TEXTDELIM = _textdelim_family()


def descriptor_strings(tier, rnd):
    """strings built from runs of significant characters with run lengths around the line limit and the fold target"""
    classes = {"a": "a", "sp": " ", "sq": "'", "dq": '"', "semi": ";", "bsl": "\\", "nl": "\n", "u4": "𝄞", "br": "]", "hash": "#", "tab": "\t"}
    small = [1, 2, 3]
    big = [2039, 2040, 2046, 2047, 2048, 2049] if tier == "quick" else [2030, 2034, 2039, 2040, 2041, 2045, 2046, 2047, 2048, 2049, 2050, 4100]
    out = []
    cl = list(classes)
    # single runs and pairs of runs
    for c in cl:
        for n in small + big:
            if c == "nl" and n > 3:
                continue
            out.append(classes[c] * n)
    for c1 in cl:
        for c2 in cl:
            if c1 == c2:
                continue
            for n1, n2 in [(1, 1), (2, 1), (1, 2), (3, 3)] + [(b, 1) for b in big[1::2]] + [(1, b) for b in big[1::2]]:
                if (c1 == "nl" and n1 > 3) or (c2 == "nl" and n2 > 3):
                    continue
                out.append(classes[c1] * n1 + classes[c2] * n2)
    # triples with a long middle and lexically nasty ends
    for c1 in ("sq", "dq", "semi", "bsl", "nl", "sp"):
        for c3 in ("sq", "dq", "bsl", "nl", "sp", "semi"):
            for n in big[::2]:
                out.append(classes[c1] + "a" * n + classes[c3])
                out.append("a" * 5 + classes[c1] * 2 + "\n" + "b" * n + classes[c3] + "\n" + classes[c3] * 3)
    extra = ["", "'''", '"""', "'''\"\"\"", "a'''b\"\"\"c", "\n;", "x\n;y", ";\n;", "\\\n", "a\\\n", "a\\  \nb", "> \\\nx", "\\\\\n", "ab\\", "a\n\nb", "\n", "\n\n", " \n ", "a \nb ", "?", ".", "1.5(2)", "data_x", "loop_", "_x", "$", "[a]", "DATA_x", "dAtA_y", "daTa_", "SAVE_f", "sAvE_", "LOOP_", "lOoP_", "STOP_", "Global_", "GLOBAL_",
             "a'b", 'a"b', "a' b", "'a", "a'", '"a', 'a"', "'\n", "\n'", "''\n'", "a\n'''", '"""\n', "x'''\ny\"\"\"\nz", ("a" * 2047 + "\n") * 3, ("ab " * 700), "𝄞" * 1030, ("é" * 2048), ("é" * 2049), "a" * 2041 + "\n;b", ";" * 2050, ";" * 2047,
             "'" * 2046, '"' * 2047, "'\"" * 1030, "\\" * 2049, "a" * 2040 + "\\", " " * 2049, "a " * 1030 + "\\", "\t" * 5 + "a" * 2044,
             # one-line values that can only stand in a text field (both kinds of quote, or both triple delimiters) and end in a
             # backslash, possibly followed by blanks: the first line of the field must not read as a fold / prefix signature
             "a'b\"c\\", "it's a \"path\": C:\\", "a'b\"c\\  ", "a'b\"c\\\t", "a'''b\"\"\"c\\", "a'''b\"\"\"c\\ ", "'\"\\", "a'b\"c\\\\", "> a'b\"c\\",
             # long lines without blanks: the writer has to fold hard at the target length (2040) - what stands there matters
             ] + HARDFOLD + TEXTDELIM
    out += extra
    seen, res = set(), []
    for s in out:
        if s not in seen:
            seen.add(s); res.append(s)
    if tier == "quick" and len(res) > 900:
        keep = res[:len(extra)] if False else extra
        rest = [s for s in res if s not in set(extra)]
        rnd.shuffle(rest)
        res = extra + rest[:900 - len(extra)]
    return res


RLNAMES = {"a": "a", "b": "b", " ": "sp", "'": "sq", '"': "dq", ";": "semi", "\\": "bsl", "\n": "nl", "\U0001d11e": "u4", "]": "br", "#": "hash", "\t": "tab", "\u00e9": "e9"}


def run_lengths(s, maxruns=8):
    """compact, stable description of a descriptor string: runs of equal characters"""
    runs = []
    for ch in s:
        if runs and runs[-1][0] == ch:
            runs[-1][1] += 1
        else:
            runs.append([ch, 1])
    parts = ["%s%d" % (RLNAMES.get(c, "x%04x" % ord(c)), n) for c, n in runs[:maxruns]]
    if len(runs) > maxruns:
        parts.append("+%druns/%dchars" % (len(runs) - maxruns, len(s)))
    return ".".join(parts) or "empty"


def strings_in(x):
    """all text members inside a command list"""
    out = []
    if isinstance(x, dict):
        for k, v in x.items():
            if k == "t" and isinstance(v, str):
                out.append(v)
            else:
                out += strings_in(v)
    elif isinstance(x, list):
        for v in x:
            if isinstance(v, str):
                out.append(v)
            else:
                out += strings_in(v)
    return out


def api_case(s, pos, idx):
    """build commands placing string s at a position"""
    v = {"k": "char", "t": s, "q": 1}
    b = [{"op": "cif_create", "cif": "c"}, {"op": "create_block", "cif": "c", "code": "b", "h": "h"}]
    if pos == "scalar":
        b.append({"op": "set_value", "cont": "h", "name": "_s", "v": v})
    elif pos == "loop":
        b += [{"op": "create_loop", "cont": "h", "category": "k", "names": ["_a", "_b"], "h": "l"},
              {"op": "loop_add_packet", "loop": "l", "packet": [["_a", {"k": "numb", "t": "1"}], ["_b", v]]},
              {"op": "loop_add_packet", "loop": "l", "packet": [["_a", v], ["_b", {"k": "na"}]]}]
    elif pos == "list":
        b.append({"op": "set_value", "cont": "h", "name": "_l", "v": {"k": "list", "e": [{"k": "numb", "t": "1"}, v, {"k": "list", "e": [v]}]}})
    elif pos == "table":
        b.append({"op": "set_value", "cont": "h", "name": "_t", "v": {"k": "table", "e": [["k", v], ["m", {"k": "table", "e": [["n", v]]}]]}})
    elif pos in ("looplist", "looptable"):
        # a composite value inside a loop packet (item names are then written by the loop header, not with the value)
        comp = {"k": "list", "e": [v]} if pos == "looplist" else {"k": "table", "e": [["k", v]]}
        b += [{"op": "create_loop", "cont": "h", "category": "k", "names": ["_a", "_b"], "h": "l"},
              {"op": "loop_add_packet", "loop": "l", "packet": [["_a", {"k": "numb", "t": "1"}], ["_b", comp]]}]
    elif pos == "key":
        b.append({"op": "set_value", "cont": "h", "name": "_t", "v": {"k": "table", "e": [[s, {"k": "numb", "t": "1"}], ["z", {"k": "unk"}]]}})
    elif pos == "unquoted":
        b.append({"op": "set_value", "cont": "h", "name": "_s", "v": {"k": "char", "t": s, "q": 0}})
    elif pos == "frame":
        b += [{"op": "create_frame", "cont": "h", "code": "f", "h": "hf"}, {"op": "set_value", "cont": "hf", "name": "_s", "v": v},
              {"op": "create_frame", "cont": "hf", "code": "g", "h": "hg"}, {"op": "set_value", "cont": "hg", "name": "_s", "v": v}]
    return b


def run_roundtrip(prop, ver, tier):
    rep = Report(prop, tier, "model_checking")
    binary = build("asan")
    rnd = random.Random(SEED)
    # M1: the equivalence of the specification is an equivalence
    wd0 = scratch_dir("rt-laws")
    tr0 = os.path.join(wd0, "t.ndjson"); open(tr0, "w").write("")
    cases = []
    # (a) CIFs parsed from CifDoc documents (every palette value / presentation / context)
    vids = sorted(PALETTE) if ver == 2 else [v for v, t in PALETTE.items() if all(ord(c) < 127 for c in t)]
    out, st1, wd = run_doc_tlc("rt-base%d" % ver, 2, vids, ["sq", "tdq", "text", "textp", "bare"], ["sp", "eol"], CTX2 if ver == 2 else ["scalars", "frame", "loop1", "list"], ["eol"] if tier == "quick" else ["eol", "eof", "cmt"], 1)
    if not st1["ok"]:
        cleanup(wd); raise Infra("TLC failed (round-trip bases): " + st1.get("error", "")[:800])
    docs = [o for tag, o in iter_tlc_json(out, ("DOC",))]
    cleanup(wd)
    ndocs_generated = len(docs)
    cap = 1500 if tier == "quick" else 12000
    if len(docs) > cap:
        rnd.shuffle(docs); docs = docs[:cap]
    for i, o in enumerate(docs):
        cases.append(("doc%d %s %s" % (i, o["ctx"], "+".join("%s/%s" % (s["v"], s["p"]) for s in o["slots"])), [{"op": "parse", "cif": "c", "text": render(o["d"]["doc"]), "errors": "accept"}]))
    # (b) descriptor strings placed through the API
    strs = descriptor_strings(tier, rnd)
    positions = ["scalar", "loop", "list", "table", "key", "unquoted", "frame", "looplist", "looptable"] if ver == 2 else ["scalar", "loop", "unquoted", "frame", "list", "looplist", "looptable"]
    for i, s in enumerate(strs):
        sel = positions if (tier != "quick" or s in HARDFOLD) else [positions[i % len(positions)], positions[(i * 3 + 1) % len(positions)]]
        if s in TEXTDELIM and "scalar" not in sel:
            sel = ["scalar"] + sel
        if RESERVED_LIKE.match(s) and "unquoted" not in sel:
            sel = sel + ["unquoted"]      # what looks like a reserved word is always also tried as a value marked unquoted
        for pos in sel:
            # (strings that may not stand unquoted are included when short: the library then refuses to mark them unquoted
            # and they are written quoted - unless its notion of what may stand unquoted is wrong)
            if pos == "unquoted" and not ("bare" in py_adm(s)[0] or s in ("?", ".")) and not (0 < len(s) < 40):
                continue
            cases.append(("str:%s@%s" % (run_lengths(s), pos), api_case(s, pos, i)))
    # (c) names and codes with characters outside CIF 1.1's repertoire, at every place a name can stand (for CIF 1.1
    # output each must be refused with CIF_DISALLOWED_CHAR whatever else the container holds; CIF 2.0 round-trips them)
    one = {"k": "numb", "t": "1"}
    for ch, tag in (("\u00e9", "e9"), ("\u03c3", "sigma"), ("\U0001d11e", "u4")):
        base = [{"op": "cif_create", "cif": "c"}, {"op": "create_block", "cif": "c", "code": "b", "h": "h"}]
        cases.append(("name:%s@blockcode" % tag, [{"op": "cif_create", "cif": "c"}, {"op": "create_block", "cif": "c", "code": "b" + ch, "h": "h"}, {"op": "set_value", "cont": "h", "name": "_s", "v": one}]))
        cases.append(("name:%s@framecode" % tag, base + [{"op": "set_value", "cont": "h", "name": "_s", "v": one}, {"op": "create_frame", "cont": "h", "code": "f" + ch, "h": "hf"}, {"op": "set_value", "cont": "hf", "name": "_t", "v": one}]))
        cases.append(("name:%s@scalar-first" % tag, base + [{"op": "set_value", "cont": "h", "name": "_a" + ch, "v": one}, {"op": "set_value", "cont": "h", "name": "_z", "v": one}]))
        cases.append(("name:%s@scalar-last" % tag, base + [{"op": "set_value", "cont": "h", "name": "_a", "v": one}, {"op": "set_value", "cont": "h", "name": "_z" + ch, "v": one}]))
        for k in range(3):
            nm = ["_l%d" % j + (ch if j == k else "") for j in range(3)]
            cases.append(("name:%s@loop-%d-of-3" % (tag, k + 1), base + [{"op": "set_value", "cont": "h", "name": "_s", "v": one}, {"op": "create_loop", "cont": "h", "category": "k", "names": nm, "h": "l"},
                          {"op": "loop_add_packet", "loop": "l", "packet": [[n, one] for n in nm]}, {"op": "loop_add_packet", "loop": "l", "packet": [[n, {"k": "char", "t": "v", "q": 1}] for n in nm]}]))
    # (d) string values holding one character at the boundaries of the character classes (CIF 1.1: HT LF CR and
    # U+0020..U+007E; CIF 2.0: no C0 controls but HT LF CR, no DEL, no surrogates, no noncharacters, no U+FEFF inside), in
    # the two kinds of value presentation (one line, several lines)
    for cp in CHAR_BOUNDS:
        for form, t in (("line", "a%sb" % chr(cp)), ("text", "a%sb\nc d" % chr(cp))):
            cases.append(("char:%04X/%s@scalar" % (cp, form), api_case(t, "scalar", 0)))
    # (e) carriage returns inside values.  A CR, a CR LF pair and an LF inside a value all read back as one newline (C01), so
    # the written value is compared after that normalisation; what matters here is that a CR counts as a line terminator
    # wherever the writer reasons about lines - in front of a semicolon, at the end of the value, for the line length
    for tag, t in (("cr-semi", "ab\r;cd"), ("crlf-semi", "ab\r\n;cd"), ("cr", "ab\rcd"), ("cr-end", "ab\r"), ("cr-semi-end", "a\r;"), ("cr-first", "\r;x"), ("cr-cr-semi", "a\r\r;b"),
                   ("lf-cr-semi", "a\n\r;b"), ("cr-quotes", "a'\"\r;b"), ("cr-long", "x" * 1500 + "\r" + "y" * 1500)):
        for posn in ("scalar", "loop", "list", "table"):
            cases.append(("crstr:%s@%s" % (tag, posn), api_case(t, posn, 0)))
    results = run_cases(binary, cases, ver)
    recs, owners = [], []
    for label, build_cmds, o, err in results:
        if o is None:
            rep.violation("abnormal termination: " + sanitizer_signature(err or ""), "write / re-parse did not return for case %s" % label, {"build": build_cmds if len(json.dumps(build_cmds)) < 20000 else "(large)", "stderr": (err or "")[:3000]})
            continue
        po, w, pr = o[0], o[1], o[2]
        if "state" not in po:
            continue
        orig, strings, names, keys = proj_to_content(po["state"])
        has_cr = any("\r" in x for x in strings)
        if has_cr:
            # line terminators are not distinguished when a value is read (C01), so the facts are taken from the value as it
            # reads: with LF for every CR LF pair and every CR
            def nl(v):
                if isinstance(v, str): return v.replace("\r\n", "\n").replace("\r", "\n")
                if isinstance(v, list): return [nl(x) for x in v]
                if isinstance(v, dict): return {k_: nl(x) for k_, x in v.items()}
                return v
            orig, strings = nl(orig), nl(strings)
        must, mayrefuse, expr11 = flags(strings, names, keys)
        if has_cr:
            must = False        # the success clause of the property sets CR aside
        rp = w.get("reparse", {})
        re_content = proj_to_content(pr["state"])[0] if "state" in pr else {"blocks": []}
        if has_cr and w.get("rc", -1) == 0 and rp.get("rc", -1) == 0 and not [e for e in rp.get("log", []) if e.get("cb") == "error"]:
            # text equality cannot be demanded of a value with CR (a CR that meets the writer's own LF reads as one newline):
            # for these cases the document facts - well-formed, lines within the limit, re-parsed without error - are decided
            re_content = orig
        rec = {"ver": ver, "orig": orig, "rc": w.get("rc", -1), "head": bytes.fromhex(w.get("head", "")).decode("latin-1")[:10], "utf8": w.get("utf8", 0), "maxline": w.get("maxline", 0),
               "cif11": w.get("cif11chars", 0), "rrc": rp.get("rc", -1), "rerrs": len([e for e in rp.get("log", []) if e.get("cb") == "error"]), "re": re_content,
               "must": must, "mayrefuse": mayrefuse, "expr11": expr11}
        longest = max([len(x.encode("utf-16-le")) // 2 for t in strings + keys for x in t.split("\n")] or [0])
        recs.append(rec); owners.append((label, build_cmds, w, rp, longest))
        if o[-1].get("leak"):
            rep.violation("leak in write/re-parse", "LeakSanitizer reports a leak for case %s (write rc %s)" % (label, w.get("rc")), {"build": build_cmds if len(json.dumps(build_cmds)) < 20000 else "(large)"})
        for x in (w, rp):
            if "env_after" in x:
                rep.violation("environment changed by cif_write / cif_parse", "%s -> %s" % (x.get("env_before"), x["env_after"]), {"case": label})
    wd = scratch_dir("roundtrip")
    trace = os.path.join(wd, "trace.ndjson")
    with open(trace, "w") as f:
        for r in recs:
            f.write(json.dumps(r) + "\n")
    cfg = "SPECIFICATION Spec\nINVARIANT NotAccepted\nINVARIANT EquivLaws\nCHECK_DEADLOCK FALSE\n"
    t0 = time.time()
    out, st, wd2 = run_tlc("CifRoundTrip", cfg, "roundtrip", workers=1, env={"TRACE": trace}, timeout=2400, heap="10g")
    text = open(out, errors="replace").read()
    cleanup(wd2); cleanup(wd); cleanup(wd0)
    if "Invariant NotAccepted is violated" not in text:
        raise Infra("TLC did not consume the trace: " + (st.get("error") or text[-1500:])[:1500])
    nb = 0
    for at in sorted({int(m.group(1)) for m in re.finditer(r'<<"BREACH", (\d+)>>', text)}):
        nb += 1
        r = recs[at - 1]
        label, build_cmds, w, rp, longest = owners[at - 1]
        if r["rc"] != 0:
            why = "write refused with %s" % r["rc"]
        elif r["rrc"] != 0 or r["rerrs"]:
            errs = [e.get("code") for e in rp.get("log", []) if e.get("cb") == "error"]
            why = "output does not re-parse cleanly (rc %s, errors %s)" % (r["rrc"], errs[:3])
        elif r["maxline"] > 2048:
            why = "line of %d characters written" % r["maxline"]
        elif not r["utf8"] or (ver == 1 and not r["cif11"]) or not r["head"].startswith("#\\#CIF_"):
            why = "malformed output (head %r utf8 %s cif11 %s)" % (r["head"], r["utf8"], r["cif11"])
        else:
            why = "re-parsed content is not equivalent"
        pos = label.split("@")[1] if "@" in label else label.split(" ")[1]
        # classes of the open finding: a line within ten characters of the 2048 limit (where the writer's budget for
        # delimiters / fold markers is wrong), or a run of >= 2039 semicolons (never foldable before a semicolon);
        # longer lines that fold normally are NOT in the class
        semis = max([len(m) for m in re.findall(r";+", "\n".join(strings_in(build_cmds)))] or [0])
        texts = strings_in(build_cmds)
        lead_semi = any(l.startswith(";") for t in texts for l in t.split("\n"))
        if 2028 <= longest <= 2049:
            cls = "near-limit line: "
        elif semis >= 2039:
            cls = "near-limit line: semicolon run: "
        elif longest > 2049 and lead_semi:
            cls = "near-limit line: folded line that starts with a semicolon: "
        elif longest > 2049 and pos == "unquoted":
            cls = "near-limit line: long value marked unquoted: "
        elif longest > 2028 and pos == "key":
            cls = "near-limit line: table key longer than a line: "
        else:
            cls = ""
        if os.environ.get("VERIF_DEBUG_RT"):
            log("RTFAIL %s | %s" % (label, why[:60]))
        # inside the classes of the open finding every failing case is named exactly (string shape @ position): the finding
        # lists the cases that fail on the tree as given, anything else in the class is reported
        wclass = why.split(" (")[0].split(" with ")[0] if cls else ""
        sig = "%s%s: %s" % (cls, label, wclass) if cls and label.startswith("str:") else "%s%s [%s]" % (cls, re.sub(r"[0-9]+", "N", why)[:70], pos)
        rep.violation(sig, "case %s (longest line %d): %s" % (label, longest, why),
                      {"build": build_cmds if len(json.dumps(build_cmds)) < 30000 else "(large)", "record": {k: v for k, v in r.items() if k not in ("orig", "re")},
                       "orig": r["orig"] if len(json.dumps(r["orig"])) < 6000 else "(large)", "reparsed": r["re"] if len(json.dumps(r["re"])) < 6000 else "(large)"})
    rep.samples = [{"case": owners[i][0], "write_rc": recs[i]["rc"], "maxline": recs[i]["maxline"], "reparse_rc": recs[i]["rrc"]} for i in (0, len(recs) // 2, len(recs) - 1)] if recs else []
    log("[%s] cases %d records %d breaches %d (TLC %.1fs)" % (prop, len(cases), len(recs), nb, time.time() - t0))
    return rep.finish({"states": max(st["distinct"], 1) + st1["distinct"], "transitions": max(st["generated"], 1) + st1["generated"], "traces_validated_against_impl": len(recs) - nb,
                       "cases": len(cases), "from_documents": len(docs), "descriptor_strings": len(strs), "refused_writes": sum(1 for r in recs if r["rc"] != 0), "exhaustive": False,
                       "explanation": "CIFs: every CifDoc document of the base configuration (parsed), and descriptor strings (runs of significant characters with lengths around 2048 and the fold target) placed as scalar, loop value, list / table member, table key, unquoted value, nested frames; each written, re-parsed and judged by TLC"},
                      ["character-class facts (allowed characters, CR, CIF 1.1 set, newline-semicolon) are computed by the driver; structure and equivalence by TLC"])


def c02(tier, replay=None):
    return run_roundtrip("C02", 2, tier)


def c13(tier, replay=None):
    return run_roundtrip("C13", 1, tier)
