"""Shared machinery for the cif_api verification checks: builds, TLC runs, cifrun batches, evidence, findings."""
import json, os, subprocess, sys, time, hashlib, tempfile, shutil, re, random, itertools, threading
from concurrent.futures import ThreadPoolExecutor

VERIF = os.path.dirname(os.path.dirname(os.path.abspath(__file__)))
REPO = os.environ.get("CIF_REPO", "/repo")
SPEC = os.path.join(VERIF, "spec")
EVID = os.path.join(VERIF, "evidence")
REPLAYS = os.path.join(VERIF, "replays")
NCPU = int(os.environ.get("VERIF_JOBS", "0")) or (os.cpu_count() or 4)
SEED = int(os.environ.get("VERIF_SEED", "1") or 1)
SUBRUN = bool(os.environ.get("VERIF_SUBRUN"))     # executed on behalf of C16: only the ledger log matters


class Infra(Exception):
    """Infrastructure failure (build, TLC, harness protocol): the check run is broken, not a violation."""


def log(*a):
    print(*a, file=sys.stderr, flush=True)


# ---------------------------------------------------------------------------------------------- builds
_built = {}


def build(variant="asan"):
    if variant in _built:
        return _built[variant]
    t0 = time.time()
    p = subprocess.run([os.path.join(VERIF, "harness", "build.sh"), variant], capture_output=True, text=True)
    if p.returncode != 0:
        raise Infra("build failed (%s): %s" % (variant, p.stderr[-2000:]))
    path = p.stdout.strip().splitlines()[-1]
    _built[variant] = path
    log("[build %s] %s (%.1fs)" % (variant, path, time.time() - t0))
    return path


# ---------------------------------------------------------------------------------------------- TLC
def scratch_dir(tag):
    base = os.path.join(VERIF, ".build", "tmp")
    os.makedirs(base, exist_ok=True)
    return tempfile.mkdtemp(prefix=tag + "-", dir=base)


def run_tlc(module, cfg_text, tag, workers=None, timeout=3000, extra=None, env=None, out_path=None, heap="12g", simulate=None):
    """Run TLC on spec/<module>.tla with the given configuration text.  Returns (stdout_path, stats, workdir).
    stats: generated, distinct, depth, ok(bool), error text."""
    wd = scratch_dir(tag)
    cfg = os.path.join(wd, module + ".cfg")
    with open(cfg, "w") as f:
        f.write(cfg_text)
    out = out_path or os.path.join(wd, "tlc.out")
    cmd = ["java", "-XX:+UseParallelGC", "-Xmx" + heap, "-Xss16m", "-cp", "/opt/veriftools/tla/tla2tools.jar:/opt/veriftools/tla/CommunityModules-deps.jar",
           "tlc2.TLC"]
    # use the wrapper if present: it knows the right classpath
    cmd = ["tlc"]
    cmd += ["-noGenerateSpecTE", "-workers", str(workers or NCPU), "-metadir", os.path.join(wd, "meta"), "-config", cfg]
    if simulate:
        cmd += ["-simulate", simulate]
    if extra:
        cmd += extra
    cmd += [os.path.join(SPEC, module + ".tla")]
    e = dict(os.environ)
    e.setdefault("JAVA_TOOL_OPTIONS", "")
    if env:
        e.update(env)
    t0 = time.time()
    with open(out, "w") as fo:
        try:
            p = subprocess.run(cmd, stdout=fo, stderr=subprocess.STDOUT, cwd=SPEC, env=e, timeout=timeout)
            rc = p.returncode
        except subprocess.TimeoutExpired:
            rc = -9
    stats = {"rc": rc, "wall_s": round(time.time() - t0, 2), "generated": 0, "distinct": 0, "depth": 0, "ok": False, "error": ""}
    # scan the tail for statistics
    with open(out, "rb") as f:
        f.seek(0, 2)
        size = f.tell()
        f.seek(max(0, size - 20000))
        tail = f.read().decode("utf-8", "replace")
    m = re.search(r"(\d+) states generated, (\d+) distinct states found", tail)
    if m:
        stats["generated"], stats["distinct"] = int(m.group(1)), int(m.group(2))
    m = re.search(r"depth of the complete state graph search is (\d+)", tail)
    if m:
        stats["depth"] = int(m.group(1))
    if "Model checking completed. No error has been found." in tail or (simulate and rc in (0,)):
        stats["ok"] = True
    else:
        i = tail.find("Error:")
        stats["error"] = tail[i:i + 3000] if i >= 0 else tail[-1500:]
    return out, stats, wd


_line_re = re.compile(r'^<<"([A-Z]+)", "(.*)">>$')


def iter_tlc_json(path, tags=None):
    """Yield (tag, obj) for every `<<"TAG", "json">>` line TLC printed."""
    with open(path, "r", errors="replace") as f:
        for line in f:
            if not line.startswith('<<"'):
                continue
            m = _line_re.match(line.rstrip("\n"))
            if not m:
                continue
            tag, body = m.group(1), m.group(2)
            if tags and tag not in tags:
                continue
            # TLA+ string escapes coincide with JSON's for \" and \\
            try:
                yield tag, json.loads(json.loads('"' + body + '"'))
            except Exception as ex:
                raise Infra("cannot decode TLC line: %s ... (%s)" % (line[:200], ex))


def cleanup(wd):
    shutil.rmtree(wd, ignore_errors=True)


# ---------------------------------------------------------------------------------------------- cifrun
class RunResult:
    __slots__ = ("outs", "rc", "stderr", "timed_out")

    def __init__(self, outs, rc, stderr, timed_out=False):
        self.outs, self.rc, self.stderr, self.timed_out = outs, rc, stderr, timed_out

    @property
    def crashed(self):
        return self.rc != 0 or self.timed_out


def run_cifrun(binary, cmds, timeout=120, env=None):
    """Execute a list of command dicts in one cifrun process.  In ledger mode (C16 sub-runs, VERIF_LEDGER_DIR set) the
    same execution additionally records the ownership / environment / outcome log that CifLedger.tla validates."""
    if LEDGER_DIR and binary.find("asan-") >= 0:
        return _run_ledger(binary, cmds, timeout, env)
    return _run_cifrun(binary, cmds, timeout, env)


def _run_cifrun(binary, cmds, timeout=120, env=None):
    data = "\n".join(json.dumps(c, ensure_ascii=True) for c in cmds) + "\n"
    e = dict(os.environ)
    e["ASAN_OPTIONS"] = "detect_leaks=1:abort_on_error=0:exitcode=71:allocator_may_return_null=1:detect_stack_use_after_return=0"
    e["UBSAN_OPTIONS"] = "print_stacktrace=1:halt_on_error=1:exitcode=72"
    e["LSAN_OPTIONS"] = "exitcode=73:print_suppressions=0"
    if env:
        e.update(env)
    try:
        p = subprocess.run([binary], input=data.encode(), capture_output=True, timeout=timeout, env=e)
    except subprocess.TimeoutExpired as ex:
        outs = []
        for l in (ex.stdout or b"").decode("utf-8", "replace").splitlines():
            try:
                outs.append(json.loads(l))
            except Exception:
                pass
        return RunResult(outs, -9, (ex.stderr or b"").decode("utf-8", "replace")[-4000:], True)
    outs = []
    for l in p.stdout.decode("utf-8", "replace").splitlines():
        try:
            outs.append(json.loads(l))
        except Exception:
            outs.append({"err": "unparsable", "raw": l[:200]})
    err = p.stderr.decode("utf-8", "replace")
    if len(err) > 9000:
        err = err[:6000] + "\n...\n" + err[-2500:]
    return RunResult(outs, p.returncode, err)


# ---- ledger mode --------------------------------------------------------------------------------------------------
LEDGER_DIR = os.environ.get("VERIF_LEDGER_DIR")
LEDGER_ENV = os.environ.get("VERIF_LEDGER_ENV")          # JSON object for a leading {"op":"setenv", ...}
LEDGER_TRIPLE = int(os.environ.get("VERIF_LEDGER_TRIPLE", "0") or 0)   # every n-th batch is executed three times (growth probe)
_ledger_lock = threading.Lock()
_ledger_count = [0]


def _handles(xs):
    return list(xs or [])


def ledger_events(outs, ncmds_expected, rc, timed_out, stderr, batch):
    """Project cifrun outputs to the event log of CifLedger.tla (no judgement here)."""
    ev = []
    quiet = 0
    for o in outs:
        op = o.get("op", "?")
        if op == "ledger":
            if "mark" in o:
                ev.append({"e": "mark", "m": o["mark"], "b": batch})
            continue
        lg = o.get("lg") or {}
        envch = 1 if "env_after" in o else 0
        if op == "reset":
            ev.append({"e": "reset", "op": op, "a": _handles(lg.get("a")), "r": _handles(lg.get("r")), "env": envch, "leak": int(o.get("leak", 0) or 0),
                       "live": int(o.get("live", 0) or 0) // 16, "q": quiet, "b": batch})
            quiet = 0
        elif lg or envch:
            ev.append({"e": "call", "op": op, "a": _handles(lg.get("a")), "r": _handles(lg.get("r")), "env": envch, "q": quiet, "b": batch,
                       "envs": "%s -> %s" % (o.get("env_before"), o.get("env_after")) if envch else ""})
            quiet = 0
        else:
            quiet += 1
    if timed_out:
        out = "timeout"
    elif rc != 0 or len(outs) < ncmds_expected:
        out = "abort"
    else:
        out = "normal"
    ev.append({"e": "end", "out": out, "sig": sanitizer_signature(stderr) if out == "abort" else "", "n": len(outs), "q": quiet, "b": batch})
    return ev


def _run_ledger(binary, cmds, timeout, env):
    with _ledger_lock:
        _ledger_count[0] += 1
        n = _ledger_count[0]
    batch = "%d-%d" % (os.getpid(), n)
    pre = [{"op": "ledger", "on": 1}]
    if LEDGER_ENV:
        pre.append(dict(json.loads(LEDGER_ENV), op="setenv"))
    triple = LEDGER_TRIPLE and n % LEDGER_TRIPLE == 0 and not any(c.get("op") == "setenv" for c in cmds)
    allc = pre + list(cmds) + [{"op": "reset"}]
    if triple:
        allc += list(cmds) + [{"op": "reset"}, {"op": "ledger", "mark": "base"}] + list(cmds) + [{"op": "reset"}, {"op": "ledger", "mark": "probe"}]
    rr = _run_cifrun(binary, allc, timeout * (3 if triple else 1), env)
    ev = ledger_events(rr.outs, len(allc), rr.rc, rr.timed_out, rr.stderr, batch)
    interesting = any((e["e"] == "end" and e["out"] == "abort") or (e["e"] == "reset" and e["leak"]) or e.get("env") for e in ev) or triple
    with _ledger_lock:
        with open(os.path.join(LEDGER_DIR, "events-%d.ndjson" % os.getpid()), "a") as f:
            for e in ev:
                f.write(json.dumps(e) + "\n")
        if interesting:
            with open(os.path.join(LEDGER_DIR, "batch-%s.json" % batch), "w") as f:
                json.dump({"cmds": allc, "stderr": rr.stderr[-6000:], "rc": rr.rc}, f)
    # the caller sees its own commands' outputs only (first execution)
    first = rr.outs[len(pre):len(pre) + len(cmds)]
    if triple and len(rr.outs) >= len(pre) + len(cmds):
        # a crash in a repetition is C16's business, not the caller's
        return RunResult(first, 0, "", False)
    return RunResult(first, rr.rc, rr.stderr, rr.timed_out)


def sanitizer_signature(stderr):
    """Stable signature of a sanitizer report: kind + first library frame (function and file)."""
    kind = "crash"
    m = re.search(r"ERROR: (AddressSanitizer|LeakSanitizer|UndefinedBehaviorSanitizer): ([\w-]+)", stderr)
    if m:
        kind = m.group(2)
    elif "runtime error:" in stderr:
        m2 = re.search(r"runtime error: ([^\n]+)", stderr)
        kind = "ub:" + (m2.group(1)[:60] if m2 else "")
    fn = ""
    for m in re.finditer(r"#\d+ 0x[0-9a-f]+ in (\w+) /(?:[\w.-]+/)*?src/((?:internal/)?[\w.]+):(\d+)", stderr):
        fn = "%s@%s" % (m.group(1), m.group(2))
        break
    return "%s in %s" % (kind, fn or "?")


def pmap(fn, items, jobs=None):
    jobs = jobs or NCPU
    with ThreadPoolExecutor(max_workers=jobs) as ex:
        return list(ex.map(fn, items))


# ---------------------------------------------------------------------------------------------- findings / evidence
def load_known():
    p = os.path.join(VERIF, "known_findings.json")
    if not os.path.exists(p):
        return []
    with open(p) as f:
        return json.load(f).get("findings", [])


class Report:
    """Collects candidate violations for one property run, filters known findings, writes evidence."""

    def __init__(self, prop, tier, level):
        self.prop, self.tier, self.level = prop, tier, level
        self.t0 = time.time()
        self.violations = []     # (signature, description, replay object)
        self._sigs = set()
        self.known_hits = {}
        self.drift = []
        self.cov = {}
        self.samples = []
        self.assumptions = []
        self.known = [dict(k) for k in load_known() if k.get("property") == prop and k.get("status", "open") == "open"]
        for k in self.known:
            # a finding may enumerate the exact failing cases (one signature each) in a committed file
            if k.get("cases_file"):
                with open(os.path.join(VERIF, k["cases_file"])) as f:
                    k["cases"] = set(json.load(f))

    def violation(self, signature, what, replay):
        if os.environ.get("VERIF_DUMP_SIGS"):
            with open(os.environ["VERIF_DUMP_SIGS"], "a") as f:
                f.write(json.dumps({"property": self.prop, "signature": signature}) + "\n")
        for k in self.known:
            if ("cases" in k and signature in k["cases"]) or ("signature" in k and re.search(k["signature"], signature)):
                kid = k.get("signature") or k.get("cases_file")
                self.known_hits.setdefault(kid, [k, 0])
                self.known_hits[kid][1] += 1
                return
        if len(self.violations) < 50 or signature not in self._sigs:
            self.violations.append((signature, what, replay))
        else:
            self.violations.append((signature, "", None))
        self._sigs.add(signature)

    def note_drift(self, what):
        if len(self.drift) < 20:
            self.drift.append(what)

    def finish(self, coverage, assumptions=None):
        if os.environ.get("VERIF_SUBRUN"):
            # executed on behalf of another check (C16 ledger runs): no evidence, no verdict lines
            log("[subrun %s] %d candidate violations ignored here" % (self.prop, len(self.violations)))
            return 0
        evid_dir = os.environ.get("VERIF_EVIDENCE_DIR", EVID)     # seeded-change trials write elsewhere
        os.makedirs(evid_dir, exist_ok=True)
        os.makedirs(REPLAYS, exist_ok=True)
        wall = round(time.time() - self.t0, 2)
        lines = []
        for sig, (k, n) in self.known_hits.items():
            lines.append("KNOWN-FINDING: property=%s %s (%d occurrences this run)" % (self.prop, k.get("what", sig), n))
        seen = set()
        nviol = 0
        for sig, what, replay in self.violations:
            if sig in seen:
                continue
            seen.add(sig)
            nviol += 1
            name = "%s-%s.json" % (self.prop, hashlib.sha1(sig.encode()).hexdigest()[:10])
            path = os.path.join(REPLAYS, name)
            try:
                with open(path, "w") as f:
                    json.dump({"property": self.prop, "signature": sig, "what": what, "replay": replay}, f, indent=1, default=str)
            except Exception:
                pass
            lines.append("VIOLATION property=%s replay=%s" % (self.prop, path))
            log("  signature: %s\n  %s" % (sig, (what or "")[:1500]))
        cov = dict(coverage)
        cov.setdefault("samples", self.samples[:5] or ["(none)"])
        if self.drift:
            cov["specification_drift"] = self.drift
        if self.known_hits:
            cov["known_findings_hit"] = {s: n for s, (k, n) in self.known_hits.items()}
        ev = {"property_id": self.prop, "tier": self.tier, "seed": SEED, "level": self.level, "coverage": cov,
              "assumptions": (assumptions or []) + self.assumptions, "wall_s": wall, "violations": nviol}
        with open(os.path.join(evid_dir, self.prop + ".json"), "w") as f:
            json.dump(ev, f, indent=1, default=str)
        for l in lines:
            print(l, flush=True)
        return 1 if nviol else 0
