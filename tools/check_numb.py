"""C10: numeric syntax (CifNumb.tla enumerates strings with acceptance and fields) and correct rounding between text and
double, judged by TLC with exact arithmetic (BigNat.tla)."""
import json, os, random, struct, fractions
from vlib import *

SIGMA = ["+", "-", ".", "e", "E", "(", ")", "0", "1", "9", "x"]


def bits_of(hexs):
    return struct.unpack(">d", bytes.fromhex(hexs))[0]


def hex_of(d):
    return struct.pack(">d", d).hex()


def decompose(hexs):
    """double bits -> (sign, m, e, kind) with |x| = m * 2^e exactly; kind in zero/normal/subnormal/inf/nan"""
    b = int(hexs, 16)
    sign = -1 if b >> 63 else 1
    ex = (b >> 52) & 0x7FF
    fr = b & ((1 << 52) - 1)
    if ex == 0x7FF:
        return sign, 0, 0, "inf" if fr == 0 else "nan"
    if ex == 0:
        return sign, fr, -1074, "zero" if fr == 0 else "subnormal"
    return sign, fr | (1 << 52), ex - 1075, "normal"


def digs(n):
    return [int(c) for c in str(n)] if n else []


MAXD = fractions.Fraction((2 ** 53 - 1) * 2 ** 971)
MINN = fractions.Fraction(1, 2 ** 1022)


def zeros_after_point(d):
    """number of zeroes between the decimal point and the first significant digit of |d| in plain notation (negative: the
    first significant digit stands left of the point), exactly"""
    from fractions import Fraction
    x = Fraction(abs(d))
    if x == 0:
        return 0
    k = 0
    while x < 1:
        x *= 10; k += 1
    while x >= 10:
        x /= 10; k -= 1
    return k - 1


def in_normal_range(D, scale):
    if D == 0:
        return True
    v = fractions.Fraction(D) / (fractions.Fraction(10) ** scale) if scale >= 0 else fractions.Fraction(D) * (10 ** (-scale))
    return MINN <= v <= MAXD


def parse_texts(tier, rnd):
    maxe = 60 if tier == "quick" else 330
    out = ["0", "-0", "0.0", "1", "-1", "0.1", "0.5", "1.5(2)", "2.50(13)", "1e0", "1E+2", "1e-2", "100", "12345678901234567890", "0.000001", "9007199254740993", "9007199254740992", "9007199254740991",
           "4503599627370497.5", "4503599627370496.5", "4503599627370495.5", "0.3", "0.1(1)", "1.7976931348623157e308", "2.2250738585072014e-308", "2.2250738585072011e-308", "4.9e-324", "1e308", "1.8e308", "123456789(99)", "1.000000000000000055511151231257827",
           "1.00000000000000011102230246251565404236316680908203125", "1.00000000000000011102230246251565404236316680908203124", "1.00000000000000011102230246251565404236316680908203126", "5e-1", ".5", "5.", "00012.500", "+3.14159265358979323846264338327950288",
           # written exponents beyond the range of a double whose digits bring the value back into it
           "0.0000001e315", "0.000000000025e318(5)", "12345678901234567890e-320", "-1000000e-312", "0.001e311", "1000e-311", "0.00000000000000000001e328"]
    # ties: (2^53 + 1) * 2^k written out in decimal, and neighbours
    for k in (0, 1, 2, 5, 10, 30, 60, 100):
        if k * 0.30103 + 16 > maxe + 20:
            continue
        t = (2 ** 53 + 1) * 2 ** k
        out += [str(t), str(t + 1), str(t - 1), str((2 ** 53 + 3) * 2 ** k)]
    # a midpoint plus / minus an excess many places further out (the tail scan has to look at every later bignum digit,
    # 9 decimal digits each; the excess sits alone in a far one)
    for k in (0, 1, 7):
        t = (2 ** 53 + 1) * 2 ** k
        for gap in (1, 8, 9, 17, 18, 19, 26, 27, 36, 45):
            out += ["%d.%s1" % (t, "0" * gap), "-%d.%s1" % (t, "0" * gap), "%d.%s" % (t - 1, "9" * (gap + 1)), "%d.%s5" % (t, "0" * gap)]
        out += ["0.%s(%d%s2)" % ("0" * 19, 2 ** 53 + 1, "0" * 18), "%d%s1e-%d" % (t, "0" * 20, 21)]
    for k in (1, 2, 10, 50):
        # (2^53+1) / 2^(k) exactly in decimal
        num = (2 ** 53 + 1) * 5 ** k
        s = str(num)
        out.append(s[:-k] + "." + s[-k:] if len(s) > k else "0." + "0" * (k - len(s)) + s)
    for nd in (9, 10, 18, 19, 27, 28, 17, 25, 40):
        for _ in range(3 if tier == "quick" else 30):
            m = "".join(rnd.choice("0123456789") for _ in range(nd)).lstrip("0") or "7"
            e = rnd.randint(-maxe, maxe)
            p = rnd.randint(0, len(m))
            out.append((m[:p] + "." + m[p:] if rnd.random() < 0.6 else m) + ("e%d" % e if rnd.random() < 0.8 else "") + ("(%d)" % rnd.randint(1, 99) if rnd.random() < 0.4 else ""))
    for _ in range(60 if tier == "quick" else 1500):
        d = rnd.uniform(-1, 1) * 10 ** rnd.randint(-maxe // 2, maxe // 2)
        out.append(repr(d))
        out.append("%.*e" % (rnd.randint(1, 25), d))
    return list(dict.fromkeys(t for t in out if t))


def c10(tier, replay=None):
    rep = Report("C10", tier, "model_checking")
    binary = build("asan")
    rnd = random.Random(SEED)
    # ---------------- part 1: syntax and field extraction, exhaustive over short strings
    n = 4 if tier == "quick" else 6
    wd = scratch_dir("numb-gen")
    open(os.path.join(wd, "MCNumb.tla"), "w").write("---- MODULE MCNumb ----\nEXTENDS CifNumb\nMCSigma == {%s}\n====\n" % ", ".join('"%s"' % c for c in SIGMA))
    for m_ in ("CifNumb.tla", "BigNat.tla"):
        shutil.copy(os.path.join(SPEC, m_), wd)
    cfgp = os.path.join(wd, "MCNumb.cfg")
    open(cfgp, "w").write("SPECIFICATION GSpec\nCONSTANTS\n SIGMA <- MCSigma\n MaxLen = %d\nINVARIANT SyntaxAgrees\nINVARIANT EmitNum\nCHECK_DEADLOCK FALSE\n" % n)
    out = os.path.join(wd, "tlc.out")
    with open(out, "w") as fo:
        subprocess.run(["tlc", "-workers", str(NCPU), "-metadir", os.path.join(wd, "meta"), "-config", cfgp, os.path.join(wd, "MCNumb.tla")], stdout=fo, stderr=subprocess.STDOUT, cwd=wd, timeout=3000, env=dict(os.environ, TRACE="/dev/null"))
    tail = subprocess.run(["tail", "-c", "5000", out], capture_output=True, text=True).stdout
    if "No error has been found" not in tail:
        i = tail.find("Error:"); cleanup(wd)
        raise Infra("TLC failed on CifNumb (syntax): " + tail[i:i + 1800])
    mm = re.search(r"(\d+) states generated, (\d+) distinct states found", tail)
    gstates, gtrans = int(mm.group(2)), int(mm.group(1))
    strs = [o for tag, o in iter_tlc_json(out, ("NUM",))]
    cleanup(wd)
    more = ["1.5(2)", "-12.50e+03(007)", "1e", "1e+", "1(", "1()", "1(2", "1(2)3", "1..2", "--1", "+-1", "1e1.5", "0x10", " 1", "1 ", "", "1e5(3)", "00", "0.", ".0", ".", "+", "e5", "1E-0009", "1.(5)", "12345678901234567890.123456789e-300(123456)"]

    def run_syntax(ch):
        cmds = []
        for s in ch:
            cmds += [{"op": "value_build", "v": "x", "val": {"k": "list", "e": [{"k": "na"}]}}, {"op": "value_op", "v": "x", "f": "parse_numb", "text": s}, {"op": "value_dump", "v": "x"}, {"op": "value_free", "v": "x"}]
        return ch, run_cifrun(binary, cmds, timeout=900)
    items = [("".join(o["s"]), o["ok"], o["f"]) for o in strs]
    exp = {s: (ok, f) for s, ok, f in items}
    texts = [s for s, ok, f in items] + more
    nsyn = 0
    for ch, rr in pmap(run_syntax, [texts[i:i + 2000] for i in range(0, len(texts), 2000)]):
        if rr.crashed:
            rep.violation("abnormal termination " + sanitizer_signature(rr.stderr), "parse_numb crashed", {"stderr": rr.stderr[:3000]}); continue
        for k, s in enumerate(ch):
            o = rr.outs[4 * k:4 * k + 4]
            rc, v = o[1].get("rc"), o[2].get("val", {})
            if s in exp:
                ok, f = exp[s]
            else:
                mt = re.fullmatch(r"[+-]?(\d+\.?\d*|\.\d+)([eE][+-]?\d+)?(\(\d+\))?", s)
                ok, f = bool(mt), None
            problems = []
            if ok != (rc == 0):
                problems.append("rc %s for a string that %s a number" % (rc, "is" if ok else "is not"))
            elif not ok:
                if rc != 72: problems.append("refused with %s instead of CIF_INVALID_NUMBER" % rc)
                if v != {"k": "list", "e": [{"k": "na"}]}: problems.append("value modified by the refused call: %s" % v)
            elif f is not None:
                want = {"k": "numb", "t": s, "sg": f["sign"], "dg": "".join(f["digits"]), "su": "".join(f["su"]) if f["hassu"] else None, "sc": f["scale"], "q": 0}
                got = {k2: v.get(k2) for k2 in want}
                if got != want:
                    problems.append("fields %s, specified %s" % ({k2: got[k2] for k2 in got if got[k2] != want[k2]}, {k2: want[k2] for k2 in want if got[k2] != want[k2]}))
            if problems:
                shape = re.sub(r"[0-9]", "d", s)[:20]
                rep.violation("syntax %s: %s" % (shape, re.sub(r"[0-9]+", "N", problems[0])[:60]), "text %r: %s" % (s, "; ".join(problems)), {"text": s})
            else:
                nsyn += 1
    # ---------------- part 2: exact rounding, judged by TLC
    ptexts = parse_texts(tier, rnd)
    def run_parse(ch):
        cmds = []
        for s in ch:
            cmds += [{"op": "value_build", "v": "x", "val": {"k": "numb", "t": s}}, {"op": "value_dump", "v": "x"}, {"op": "value_free", "v": "x"}]
        return ch, run_cifrun(binary, cmds, timeout=900)
    recs, owners = [], []
    for ch, rr in pmap(run_parse, [ptexts[i:i + 500] for i in range(0, len(ptexts), 500)]):
        if rr.crashed:
            rep.violation("abnormal termination " + sanitizer_signature(rr.stderr), "number parsing crashed", {"stderr": rr.stderr[:3000]}); continue
        for k, s in enumerate(ch):
            o = rr.outs[3 * k:3 * k + 3]
            v = o[1].get("val", {})
            if o[0].get("rc") != 0 or v.get("k") != "numb" or v.get("d") in (None, "err"):
                rep.violation("number text refused", "text %r: build rc %s, value %s" % (s, o[0].get("rc"), v), {"text": s}); continue
            D, sc = int(v["dg"]), v["sc"]
            # the digits and the scale the library holds must denote the decimal number the text spells (independent reading
            # of the text: mantissa digits, position of the point, written exponent); the uncertainty counts units of the
            # last mantissa digit
            mt = re.match(r"^\s*([+-]?)(\d*)\.?(\d*)(?:[eE]([+-]?\d+))?(?:\((\d+)\))?\s*$", s)
            if mt:
                from fractions import Fraction
                ip, fp, ex, sud = mt.group(2), mt.group(3), int(mt.group(4) or 0), mt.group(5)
                unit = Fraction(10) ** (ex - len(fp))
                spelled = int((ip + fp) or "0") * unit
                held = D * Fraction(10) ** (-sc)
                if held != spelled:
                    rep.violation("parse: digits and scale held do not denote the number spelled", "text %r: held digits %s scale %s" % (s, v["dg"], sc), {"text": s}); continue
                if sud is not None and v.get("su") is not None and int(v["su"]) * Fraction(10) ** (-sc) != int(sud) * unit:
                    rep.violation("parse: uncertainty held does not denote the one spelled", "text %r: held su digits %s scale %s" % (s, v["su"], sc), {"text": s}); continue
            sg, m, e, kind = decompose(v["d"])
            rec = {"t": "parse", "zero": D == 0, "inrange": in_normal_range(D, sc) and kind in ("normal", "zero"), "digits": digs(D), "scale": sc, "m": digs(m), "e": e,
                   "hassu": v.get("su") is not None, "su": [], "sum": [], "sue": 0, "suinrange": False}
            if kind in ("inf", "nan") and in_normal_range(D, sc):
                rep.violation("in-range text converts to %s" % kind, "text %r gives %s" % (s, kind), {"text": s}); continue
            if D != 0 and (sg < 0) != s.lstrip().startswith("-"):
                rep.violation("sign lost", "text %r gives double %s" % (s, v["d"]), {"text": s}); continue
            if v.get("su") is not None and v.get("sd") not in (None, "err"):
                S = int(v["su"])
                s2, m2, e2, k2 = decompose(v["sd"])
                rec.update(su=digs(S), sum=digs(m2), sue=e2, suinrange=in_normal_range(S, sc) and k2 in ("normal", "zero") and S != 0)
                if S == 0 and m2 != 0:
                    rep.violation("zero su converts to non-zero", "text %r" % s, {"text": s})
            recs.append(rec); owners.append(("parse", s, v.get("d"), v.get("sd")))
    # formatting
    fcases = []
    vals = [0.0, 1.0, -1.0, 0.5, 1.5, 2.5, 0.125, 1234.5678, 1e-5, 123456789.0, 2.0 / 3.0, 1e10, 6.02214076e23, 0.1, 0.3, 1.0 / 3.0, 99.995, 0.045, 1e-7, 123.456e-9]
    vals += [rnd.uniform(-1, 1) * 10 ** rnd.randint(-8, 12) for _ in range(30 if tier == "quick" else 600)]
    vals += [k / 2.0 ** j for k in (1, 3, 5, 7, 9, 11, 13, 15, 17, 33, 255) for j in range(1, 8 if tier == "quick" else 12)]     # dyadic rationals: exact ties at some scale
    for d in vals:
        for sc in ((-2, 0, 1, 3, 6) if tier == "quick" else (-3, -2, -1, 0, 1, 2, 3, 4, 5, 6, 8)):
            for su in (0.0, abs(d) * 0.013 + 10.0 ** (-sc) * 1.7, 10.0 ** (-sc) * 0.3, 10.0 ** (-sc) * 0.04):     # the last two round away at this scale
                for mlz in (0, 5):
                    if abs(d) * 10 ** sc < 1e15 and su * 10 ** sc < 1e15:
                        fcases.append(("init", d, su, sc, mlz))
        for rule in (9, 19, 27, 99):
            for su in (abs(d) * 0.0123 + 1e-9, 0.0451, 3.0):
                fcases.append(("auto", d, su, rule, 0))
    if tier == "quick":
        rnd.shuffle(fcases); fcases = fcases[:900]
    # values whose discarded digits are "exactly one half, zeros, then a small excess (or nothing)" at a coarse scale:
    # the half and the excess fall into different 9-digit groups of the decimal expansion
    for m_ in (10, 11, 13, 15):
        for n_ in (0, 1, 2, 3, 6):
            base_ = n_ * 10 ** m_ + 5 * 10 ** (m_ - 1)
            for delta in (0.0, 0.5, 1.0, 0.25, 3.0, -0.5, -1.0):
                d = float(base_) + delta
                if d == base_ + delta and abs(d) < 2 ** 52:
                    for sgn in (1.0, -1.0):
                        fcases.append(("init", sgn * d, 0.0, -m_, 5))
                        fcases.append(("init", sgn * d, 0.0, -m_, 0))

    # magnitudes that need three exponent digits (scientific notation with exponents beyond +-99), and the largest /
    # smallest normal doubles
    for d, su, sc in ((1.5e100, 0.0, -99), (-6.02e123, 3e121, -121), (2.5e-100, 0.0, 101), (9.99e99, 0.0, -97), (1.0e100, 0.0, -100), (1.25e-99, 0.0, 101), (7.5e-101, 2e-102, 102),
                      (1.7976931348623157e308, 0.0, -300), (2.2250738585072014e-308, 0.0, 310)):
        fcases.append(("init", d, su, sc, 5))
        fcases.append(("init", -d, su, sc, 0))
    # the notation rule of cif_value_init_numb: leading-zero counts on both sides of several limits
    for d, sc in ((0.0012, 4), (-0.05, 2), (1.2e-8, 9), (0.5, 1), (0.012, 3), (1.2e-6, 7), (9.99e-4, 6), (0.0999, 4), (1.2e-7, 8)):
        for mlz in (0, 1, 2, 3, 5, 6, 7, 8):
            fcases.append(("init", d, 0.0, sc, mlz))
            fcases.append(("init", d, abs(d) * 0.25, sc, mlz))
    for d, su, rule in ((1.2345e-150, 2.1e-153, 19), (1e300, 0.0, 9), (6.02214076e123, 4.5e117, 27), (-3.3e-200, 1e-203, 19), (1e100, 3e98, 19), (9.95e99, 6e98, 9)):
        fcases.append(("auto", d, su, rule, 0))

    def run_format(ch):
        cmds = []
        for mode, d, su, a, mlz in ch:
            c = {"op": "value_op", "v": "x", "f": "init_numb" if mode == "init" else "autoinit_numb", "val": hex_of(d), "su": hex_of(su)}
            if mode == "init": c.update(scale=a, mlz=mlz)
            else: c.update(rule=a)
            cmds += [{"op": "value_create", "v": "x", "kind": 5}, c, {"op": "value_dump", "v": "x"}, {"op": "value_free", "v": "x"}]
        return ch, run_cifrun(binary, cmds, timeout=900)
    fobs = []
    for ch, rr in pmap(run_format, [fcases[i:i + 400] for i in range(0, len(fcases), 400)]):
        if rr.crashed:
            rep.violation("abnormal termination " + sanitizer_signature(rr.stderr), "number formatting crashed", {"stderr": rr.stderr[:3000]}); continue
        for k, case in enumerate(ch):
            o = rr.outs[4 * k:4 * k + 4]
            fobs.append((case, o[1], o[2].get("val", {})))
            if "env_after" in o[1]:
                rep.violation("environment changed by %s" % o[1].get("f", "init_numb"), "%s -> %s" % (o[1].get("env_before"), o[1]["env_after"]), {"case": case})
    # round trip: the produced text parsed again
    texts2 = list({v.get("t") for case, o, v in fobs if v.get("k") == "numb"})
    rt = {}
    for ch, rr in pmap(run_parse, [texts2[i:i + 500] for i in range(0, len(texts2), 500)]):
        for k, s in enumerate(ch):
            v = rr.outs[3 * k + 1].get("val", {}) if 3 * k + 1 < len(rr.outs) else {}
            rt[s] = (v.get("dg"), v.get("su"), v.get("sc"), v.get("sg"))
    for (mode, d, su, a, mlz), o, v in fobs:
        if v.get("k") == "numb" and not v.get("dg"):
            # a value that rounds to zero at the chosen scale is held with an empty internal digit string; the public
            # interface (text, number, su) cannot tell that from "0", which is what its text parses back to
            v = dict(v, dg="0")
        if v.get("k") != "numb":
            recs.append({"t": "format", "rc": o.get("rc", -1) or -1, "digits": [], "scale": 0, "m": [], "e": 0, "hassu": False, "su": [], "sum": [], "sue": 0, "roundtrip": False, "mode": mode, "reqscale": a, "rule": a, "sci": False, "ndig": 0, "mlz": mlz, "zeros0": 0})
            owners.append(("format", mode, d, su, a, mlz, v.get("t"))); continue
        sg, m, e, kind = decompose(hex_of(d))
        s2, m2, e2, k2 = decompose(hex_of(su))
        recs.append({"t": "format", "rc": o.get("rc", -1), "digits": digs(int(v["dg"])), "scale": v["sc"], "m": digs(m), "e": e, "hassu": v.get("su") is not None,
                     "su": digs(int(v["su"])) if v.get("su") is not None else [], "sum": digs(m2), "sue": e2,
                     "roundtrip": rt.get(v["t"]) == (v.get("dg"), v.get("su"), v.get("sc"), v.get("sg")), "mode": mode, "reqscale": a if mode == "init" else 0, "rule": a if mode == "auto" else 0,
                     "sci": "e" in (v.get("t") or "").lower(), "ndig": 0 if int(v["dg"]) == 0 else len(str(int(v["dg"]))), "mlz": mlz, "zeros0": zeros_after_point(d)})
        owners.append(("format", mode, d, su, a, mlz, v.get("t")))
    # BigNat self-check
    for _ in range(40):
        a, b = rnd.getrandbits(rnd.randint(1, 900)), rnd.getrandbits(rnd.randint(1, 900))
        p2, p10 = rnd.randint(0, 200), rnd.randint(0, 60)
        recs.append({"t": "bignat", "a": digs(a), "b": digs(b), "prod": digs(a * b), "sum": digs(a + b), "p2": p2, "p10": p10, "pw": digs(2 ** p2 * 10 ** p10), "cmp": (a > b) - (a < b)})
        owners.append(("bignat", a, b))
    wd = scratch_dir("numb-trace")
    trace = os.path.join(wd, "trace.ndjson")
    with open(trace, "w") as f:
        for r in recs:
            f.write(json.dumps(r) + "\n")
    open(os.path.join(wd, "MCNumb.tla"), "w").write("---- MODULE MCNumb ----\nEXTENDS CifNumb\nMCSigma == {\"0\"}\n====\n")
    for m_ in ("CifNumb.tla", "BigNat.tla"):
        shutil.copy(os.path.join(SPEC, m_), wd)
    cfgp = os.path.join(wd, "MCNumb.cfg")
    open(cfgp, "w").write("SPECIFICATION TSpec\nCONSTANTS\n SIGMA <- MCSigma\n MaxLen = 0\nINVARIANT NotAccepted\nCHECK_DEADLOCK FALSE\n")
    out = os.path.join(wd, "tlc.out")
    t0 = time.time()
    with open(out, "w") as fo:
        subprocess.run(["tlc", "-workers", "1", "-metadir", os.path.join(wd, "meta"), "-config", cfgp, os.path.join(wd, "MCNumb.tla")], stdout=fo, stderr=subprocess.STDOUT, cwd=wd, timeout=3000, env=dict(os.environ, TRACE=trace))
    text = open(out, errors="replace").read()
    cleanup(wd)
    if "Invariant NotAccepted is violated" not in text:
        i = text.find("Error:")
        raise Infra("TLC did not consume the number trace: " + text[i:i + 2000])
    nb = 0
    for at in sorted({int(m_.group(1)) for m_ in re.finditer(r'<<"BREACH", (\d+)>>', text)}):
        nb += 1
        o = owners[at - 1]
        if o[0] == "bignat":
            raise Infra("BigNat.tla disagrees with Python integers on %s" % (o,))
        if o[0] == "parse":
            rep.violation("parse rounding: %d-digit mantissa" % len(re.sub(r"\D", "", o[1].split("e")[0].split("(")[0])), "text %r converts to %s (su %s): not a nearest double" % (o[1], o[2], o[3]), {"text": o[1], "double": o[2], "su_double": o[3]})
        else:
            rep.violation("format %s" % o[1], "%s(val=%r, su=%r, %s=%s, mlz=%s) produced %r: not the correctly rounded rendering / does not round-trip / wrong scale / notation against the documented rule" % (o[1], o[2], o[3], "scale" if o[1] == "init" else "rule", o[4], o[5], o[6]),
                          {"mode": o[1], "val": hex_of(o[2]), "su": hex_of(o[3]), "arg": o[4], "mlz": o[5], "text": o[6], "record": recs[at - 1]})
    rep.samples = [{"string": items[100][0], "number": items[100][1]}, {"text": ptexts[5]}, {"format": fcases[3]}]
    log("[C10] syntax strings %d ok %d; exact records %d (parse %d, format %d) breaches %d (TLC %.1fs)" % (len(texts), nsyn, len(recs), len(ptexts), len(fobs), nb, time.time() - t0))
    return rep.finish({"states": gstates, "transitions": gtrans, "traces_validated_against_impl": nsyn + len(recs) - nb, "syntax_strings": len(texts), "alphabet": SIGMA, "max_length": n,
                       "exact_parse_records": len(ptexts), "exact_format_records": len(fobs), "exhaustive": False,
                       "explanation": "acceptance and field extraction for every string over the alphabet up to the bound (exhaustive) and curated strings; nearest-double (value and su) for ties, binade neighbours, limb-boundary mantissa lengths and random numbers; correctly rounded rendering, requested scale, su rule and text round trip for init_numb / autoinit_numb; all judged by TLC with exact arithmetic in BigNat.tla"},
                      ["non-default rounding modes are out of scope; the nearest-double test is the necessary condition |error| <= half ulp with ties requiring an even mantissa",
                       "BigNat.tla is cross-checked against Python integers on 40 random operand pairs per run"])
