// cifrun: executes ndjson command histories against the real cif_api library and prints what it observed.
// It never decides a verdict.  One JSON object per input line, one JSON object per output line.
//
// Built by harness/build.sh against the library objects compiled from /repo's current working tree.
#include <cerrno>
#include <map>
#include <set>
#include <algorithm>
#include <string>
#include <vector>
#include <cmath>
#include <cfenv>
#include <clocale>
#include <csignal>
#include <unistd.h>
#include "json.hh"

extern "C" {
#include "cif.h"
#include "internal/ciftypes.h"
int cif_value_deserialize(const void *src, size_t len, cif_value_tp *dest);
extern const char cif_errlist[][80];
extern const int cif_nerr;
#ifdef CIFRUN_FAULT
int cifv_fault_install(void);
void cifv_fault_arm(long k, unsigned mask);
long cifv_fault_disarm(int *did_fire, const char **kind, const char **site);
#endif
#if defined(__has_feature)
#if __has_feature(address_sanitizer)
#define HAVE_LSAN 1
int __lsan_do_recoverable_leak_check(void);
size_t __sanitizer_get_current_allocated_bytes(void);
#endif
#endif
}

// ------------------------------------------------------------------------------------------------------------------
// fault window (C17): call marks the API call under test; only the first FW of a command that carries "fail_at" is
// armed, so that the harness's own preparation and dumping (which also use the library) never see an injected failure
#ifdef CIFRUN_FAULT
static long fw_pending = -1; static unsigned fw_mask = 7; static bool fw_used = false;
static long fw_n = 0; static int fw_fired = 0; static std::string fw_kind, fw_site;
struct FwGuard {
    bool active;
    FwGuard() { active = (fw_pending >= 0 && !fw_used); if (active) { fw_used = true; cifv_fault_arm(fw_pending, fw_mask); } }
    ~FwGuard() { if (active) { const char *k = "", *t = ""; fw_n = cifv_fault_disarm(&fw_fired, &k, &t); fw_kind = k; fw_site = t; } }
};
#define FW(expr) ([&]() { FwGuard fw_guard_; return (expr); }())
#else
#define FW(expr) (expr)
#endif

// ------------------------------------------------------------------------------------------------------------------
// state
static std::map<std::string, cif_tp *> cifs;
static std::map<std::string, cif_container_tp *> conts;
static std::map<std::string, cif_loop_tp *> loops;
static std::map<std::string, cif_pktitr_tp *> itrs;
static std::map<std::string, cif_packet_tp *> pkts;
static std::map<std::string, cif_value_tp *> vals;       // independent values (owned by harness)
static std::map<std::string, cif_value_tp *> refs;       // interior references (not owned)

static const UChar *U(const ustr &s) { return reinterpret_cast<const UChar *>(s.c_str()); }
static ustr fromU(const UChar *u) { ustr r; if (u) for (; *u; ++u) r.push_back((char16_t) *u); return r; }
static UChar *udup(const ustr &s) {
    UChar *r = (UChar *) malloc((s.size() + 1) * sizeof(UChar));
    memcpy(r, s.c_str(), (s.size() + 1) * sizeof(UChar));
    return r;
}

static std::string dbl_hex(double d) { uint64_t b; memcpy(&b, &d, 8); char buf[24]; snprintf(buf, sizeof buf, "%016llx", (unsigned long long) b); return buf; }
static double hex_dbl(const std::string &h) { uint64_t b = strtoull(h.c_str(), nullptr, 16); double d; memcpy(&d, &b, 8); return d; }

// ------------------------------------------------------------------------------------------------------------------
// values <-> JSON
static int build_value(const J &j, cif_value_tp **out);

static int fill_value(const J &j, cif_value_tp *v) {
    std::string k = j.gets("k", "unk");
    int rc = CIF_OK;
    if (k == "unk") { cif_value_clean(v); }
    else if (k == "na") { rc = cif_value_init(v, CIF_NA_KIND); }
    else if (k == "char") {
        const ustr *t = j.getu("t");
        rc = cif_value_copy_char(v, U(t ? *t : ustr()));
        if (rc == CIF_OK && j.get("q") && !j.geti("q", 1)) rc = cif_value_set_quoted(v, CIF_NOT_QUOTED);
    } else if (k == "numb") {
        const ustr *t = j.getu("t");
        UChar *txt = udup(t ? *t : ustr());
        rc = cif_value_parse_numb(v, txt);
        if (rc != CIF_OK) free(txt);
        else if (j.geti("q", 0)) rc = cif_value_set_quoted(v, CIF_QUOTED);
    } else if (k == "list") {
        rc = cif_value_init(v, CIF_LIST_KIND);
        const J *e = j.get("e");
        if (rc == CIF_OK && e) for (size_t i = 0; i < e->a.size() && rc == CIF_OK; i++) {
            cif_value_tp *m = nullptr;
            rc = build_value(e->a[i], &m);
            if (rc == CIF_OK) rc = cif_value_insert_element_at(v, i, m);
            cif_value_free(m);
        }
    } else if (k == "table") {
        rc = cif_value_init(v, CIF_TABLE_KIND);
        const J *e = j.get("e");
        if (rc == CIF_OK && e) for (size_t i = 0; i < e->a.size() && rc == CIF_OK; i++) {
            cif_value_tp *m = nullptr;
            if (e->a[i].a.size() != 2) return CIF_ARGUMENT_ERROR;
            rc = build_value(e->a[i].a[1], &m);
            if (rc == CIF_OK) rc = cif_value_set_item_by_key(v, U(e->a[i].a[0].s), m);
            cif_value_free(m);
        }
    } else rc = CIF_ARGUMENT_ERROR;
    return rc;
}

static int build_value(const J &j, cif_value_tp **out) {
    cif_value_tp *v = nullptr;
    int rc = cif_value_create(CIF_UNK_KIND, &v);
    if (rc != CIF_OK) return rc;
    rc = fill_value(j, v);
    if (rc != CIF_OK) { cif_value_free(v); return rc; }
    *out = v;
    return CIF_OK;
}

static void dump_value(W &w, cif_value_tp *v, bool detail = true) {
    w.obj();
    if (!v) { w.kvs("k", "NULL"); w.end_obj(); return; }
    switch (cif_value_kind(v)) {
        case CIF_CHAR_KIND: {
            UChar *t = nullptr; cif_value_get_text(v, &t);
            w.kvs("k", "char"); w.kvu("t", fromU(t)); w.kv("q", cif_value_is_quoted(v) == CIF_QUOTED ? 1 : 0);
            free(t); break;
        }
        case CIF_NUMB_KIND: {
            UChar *t = nullptr; cif_value_get_text(v, &t);
            w.kvs("k", "numb"); w.kvu("t", fromU(t)); w.kv("q", cif_value_is_quoted(v) == CIF_QUOTED ? 1 : 0);
            free(t);
            if (detail) {
                w.kvs("dg", v->as_numb.digits ? v->as_numb.digits : "");
                if (v->as_numb.su_digits) w.kvs("su", v->as_numb.su_digits); else { w.key("su"); w.null(); }
                w.kv("sc", v->as_numb.scale); w.kv("sg", v->as_numb.sign);
                double d = 0, s = 0;
                int r1 = cif_value_get_number(v, &d), r2 = cif_value_get_su(v, &s);
                w.kvs("d", r1 == CIF_OK ? dbl_hex(d).c_str() : "err"); w.kvs("sd", r2 == CIF_OK ? dbl_hex(s).c_str() : "err");
            }
            break;
        }
        case CIF_LIST_KIND: {
            size_t n = 0; cif_value_get_element_count(v, &n);
            w.kvs("k", "list"); w.key("e"); w.arr();
            for (size_t i = 0; i < n; i++) { cif_value_tp *e = nullptr; if (cif_value_get_element_at(v, i, &e) == CIF_OK) dump_value(w, e, detail); else w.null(); }
            w.end_arr(); break;
        }
        case CIF_TABLE_KIND: {
            const UChar **keys = nullptr;
            w.kvs("k", "table"); w.key("e"); w.arr();
            if (cif_value_get_keys(v, &keys) == CIF_OK && keys) {
                for (const UChar **k = keys; *k; ++k) {
                    cif_value_tp *e = nullptr;
                    w.arr(); w.str(fromU(*k));
                    if (cif_value_get_item_by_key(v, *k, &e) == CIF_OK) dump_value(w, e, detail); else w.null();
                    w.end_arr();
                }
                free(keys);
            }
            w.end_arr(); break;
        }
        case CIF_NA_KIND: w.kvs("k", "na"); break;
        case CIF_UNK_KIND: w.kvs("k", "unk"); break;
        default: w.kvs("k", "BADKIND"); break;
    }
    w.end_obj();
}

static int build_packet(const J &j, cif_packet_tp **out) {
    // j: [[name, value|null], ...]
    cif_packet_tp *p = nullptr;
    int rc = cif_packet_create(&p, nullptr);
    if (rc != CIF_OK) return rc;
    for (auto &e : j.a) {
        cif_value_tp *v = nullptr;
        if (e.a.size() != 2) { cif_packet_free(p); return CIF_ARGUMENT_ERROR; }
        if (e.a[1].t != J::NUL) { rc = build_value(e.a[1], &v); if (rc != CIF_OK) { cif_packet_free(p); return rc; } }
        rc = cif_packet_set_item(p, U(e.a[0].s), v);
        cif_value_free(v);
        if (rc != CIF_OK) { cif_packet_free(p); return rc; }
    }
    *out = p;
    return CIF_OK;
}

static void dump_packet(W &w, cif_packet_tp *p) {
    const UChar **names = nullptr;
    w.arr();
    if (p && cif_packet_get_names(p, &names) == CIF_OK && names) {
        for (const UChar **n = names; *n; ++n) {
            cif_value_tp *v = nullptr;
            w.arr(); w.str(fromU(*n));
            if (cif_packet_get_item(p, *n, &v) == CIF_OK) dump_value(w, v); else w.null();
            w.end_arr();
        }
        free(names);
    }
    w.end_arr();
}

// ------------------------------------------------------------------------------------------------------------------
// projection of a managed CIF by read-only SQL on its connection (works inside an open iterator transaction)
struct PItem { ustr norm, orig; };
struct PLoop { long long num; bool hascat; ustr cat; long long last; std::vector<PItem> items; };

static ustr col16(sqlite3_stmt *st, int c) {
    const void *t = sqlite3_column_text16(st, c);
    int n = sqlite3_column_bytes16(st, c) / 2;
    return t ? ustr((const char16_t *) t, n) : ustr();
}

static void dump_db_value(W &w, sqlite3_stmt *st, int ofs) {
    // columns: kind, quoted, val, val_text, val_digits, su_digits, scale
    int kind = sqlite3_column_int(st, ofs);
    w.obj();
    switch (kind) {
        case CIF_CHAR_KIND: w.kvs("k", "char"); w.kvu("t", col16(st, ofs + 3)); w.kv("q", sqlite3_column_int(st, ofs + 1) ? 1 : 0); break;
        case CIF_NUMB_KIND: {
            w.kvs("k", "numb"); w.kvu("t", col16(st, ofs + 3)); w.kv("q", sqlite3_column_int(st, ofs + 1) ? 1 : 0);
            const unsigned char *dg = sqlite3_column_text(st, ofs + 4), *su = sqlite3_column_text(st, ofs + 5);
            w.kvs("dg", dg ? (const char *) dg : "");
            if (su) w.kvs("su", (const char *) su); else { w.key("su"); w.null(); }
            w.kv("sc", sqlite3_column_int(st, ofs + 6));
            w.kvs("d", dbl_hex(sqlite3_column_double(st, ofs + 2)).c_str());
            break;
        }
        case CIF_LIST_KIND: case CIF_TABLE_KIND: {
            const void *blob = sqlite3_column_blob(st, ofs + 2);
            int n = sqlite3_column_bytes(st, ofs + 2);
            cif_value_tp *tmp = nullptr;
            if (blob && cif_value_create(CIF_UNK_KIND, &tmp) == CIF_OK) {
                if (cif_value_deserialize(blob, (size_t) n, tmp) == CIF_OK) {
                    W w2; dump_value(w2, tmp, true);
                    // splice members of the nested object
                    w.kvs("k", kind == CIF_LIST_KIND ? "list" : "table");
                    // re-dump elements only
                    std::string inner = w2.s;  // {"k":"list","e":[...]}
                    size_t pos = inner.find("\"e\":");
                    if (pos != std::string::npos) { w.key("e"); w.raw(inner.substr(pos + 4, inner.size() - pos - 5)); }
                    cif_value_free(tmp);
                } else { w.kvs("k", "BADBLOB"); free(tmp); }
            } else w.kvs("k", "NOBLOB");
            break;
        }
        case CIF_NA_KIND: w.kvs("k", "na"); break;
        case CIF_UNK_KIND: w.kvs("k", "unk"); break;
        default: w.kvs("k", "BADKIND"); break;
    }
    w.end_obj();
}

static void project_container(W &w, sqlite3 *db, long long id, bool isblock, const ustr &norm, const ustr &orig) {
    sqlite3_stmt *st = nullptr;
    w.obj();
    w.kvu("code", orig); w.kvu("norm", norm); w.kv("id", id);
    if (sqlite3_prepare_v2(db, "select next_loop_num from container where id = ?", -1, &st, nullptr) == SQLITE_OK) {
        sqlite3_bind_int64(st, 1, id);
        if (sqlite3_step(st) == SQLITE_ROW) w.kv("nl", sqlite3_column_int64(st, 0));
        sqlite3_finalize(st);
    }
    // frames
    w.key("frames"); w.arr();
    if (sqlite3_prepare_v2(db, "select container_id, name, name_orig from save_frame where parent_id = ? order by container_id", -1, &st, nullptr) == SQLITE_OK) {
        sqlite3_bind_int64(st, 1, id);
        std::vector<std::tuple<long long, ustr, ustr>> fr;
        while (sqlite3_step(st) == SQLITE_ROW) fr.emplace_back(sqlite3_column_int64(st, 0), col16(st, 1), col16(st, 2));
        sqlite3_finalize(st);
        for (auto &f : fr) project_container(w, db, std::get<0>(f), false, std::get<1>(f), std::get<2>(f));
    }
    w.end_arr();
    // loops
    w.key("loops"); w.arr();
    std::vector<PLoop> ls;
    if (sqlite3_prepare_v2(db, "select loop_num, category, last_row_num from loop where container_id = ? order by loop_num", -1, &st, nullptr) == SQLITE_OK) {
        sqlite3_bind_int64(st, 1, id);
        while (sqlite3_step(st) == SQLITE_ROW) {
            PLoop l; l.num = sqlite3_column_int64(st, 0); l.hascat = sqlite3_column_type(st, 1) != SQLITE_NULL; l.cat = col16(st, 1); l.last = sqlite3_column_int64(st, 2);
            ls.push_back(l);
        }
        sqlite3_finalize(st);
    }
    for (auto &l : ls) {
        w.obj(); w.kv("num", l.num); w.key("cat"); if (l.hascat) w.str(l.cat); else w.null(); w.kv("last", l.last);
        w.key("items"); w.arr();
        if (sqlite3_prepare_v2(db, "select name, name_orig from loop_item where container_id = ? and loop_num = ? order by name", -1, &st, nullptr) == SQLITE_OK) {
            sqlite3_bind_int64(st, 1, id); sqlite3_bind_int64(st, 2, l.num);
            while (sqlite3_step(st) == SQLITE_ROW) { w.arr(); w.str(col16(st, 0)); w.str(col16(st, 1)); w.end_arr(); }
            sqlite3_finalize(st);
        }
        w.end_arr();
        w.key("rows"); w.arr();
        if (sqlite3_prepare_v2(db, "select iv.row_num, iv.name, iv.kind, iv.quoted, iv.val, iv.val_text, iv.val_digits, iv.su_digits, iv.scale "
                                   "from loop_item li join item_value iv using (container_id, name) where li.container_id = ? and li.loop_num = ? "
                                   "order by iv.row_num, iv.name", -1, &st, nullptr) == SQLITE_OK) {
            sqlite3_bind_int64(st, 1, id); sqlite3_bind_int64(st, 2, l.num);
            while (sqlite3_step(st) == SQLITE_ROW) {
                w.arr(); w.num(sqlite3_column_int64(st, 0)); w.str(col16(st, 1)); dump_db_value(w, st, 2); w.end_arr();
            }
            sqlite3_finalize(st);
        }
        w.end_arr();
        w.end_obj();
    }
    w.end_arr();
    (void) isblock;
    w.end_obj();
}

static void project_cif(W &w, cif_tp *cif) {
    sqlite3 *db = cif->db;
    sqlite3_stmt *st = nullptr;
    w.obj();
    w.kv("autocommit", sqlite3_get_autocommit(db));
    w.key("blocks"); w.arr();
    if (sqlite3_prepare_v2(db, "select container_id, name, name_orig from data_block order by container_id", -1, &st, nullptr) == SQLITE_OK) {
        std::vector<std::tuple<long long, ustr, ustr>> bl;
        while (sqlite3_step(st) == SQLITE_ROW) bl.emplace_back(sqlite3_column_int64(st, 0), col16(st, 1), col16(st, 2));
        sqlite3_finalize(st);
        for (auto &b : bl) project_container(w, db, std::get<0>(b), true, std::get<1>(b), std::get<2>(b));
    }
    w.end_arr();
    // orphan rows: containers that are neither block nor frame, items without loop etc. (referential sanity)
    long long orphans = 0;
    const char *qs[] = {
        "select count(*) from container c where not exists (select 1 from data_block b where b.container_id = c.id) and not exists (select 1 from save_frame f where f.container_id = c.id)",
        "select count(*) from loop l where not exists (select 1 from container c where c.id = l.container_id)",
        "select count(*) from loop_item li where not exists (select 1 from loop l where l.container_id = li.container_id and l.loop_num = li.loop_num)",
        "select count(*) from item_value iv where not exists (select 1 from loop_item li where li.container_id = iv.container_id and li.name = iv.name)",
        "select count(*) from save_frame f where not exists (select 1 from container c where c.id = f.parent_id)"};
    for (const char *q : qs) if (sqlite3_prepare_v2(db, q, -1, &st, nullptr) == SQLITE_OK) { if (sqlite3_step(st) == SQLITE_ROW) orphans += sqlite3_column_int64(st, 0); sqlite3_finalize(st); }
    w.kv("orphans", orphans);
    w.end_obj();
}

// projection through the public API only (valid when no iterator is open)
static void api_project_container(W &w, cif_container_tp *c) {
    UChar *code = nullptr;
    w.obj();
    if (cif_container_get_code(c, &code) == CIF_OK) { w.kvu("code", fromU(code)); free(code); }
    cif_container_tp **frames = nullptr;
    w.key("frames"); w.arr();
    if (cif_container_get_all_frames(c, &frames) == CIF_OK) {
        for (cif_container_tp **f = frames; *f; ++f) { api_project_container(w, *f); cif_container_free(*f); }
        free(frames);
    }
    w.end_arr();
    cif_loop_tp **ls = nullptr;
    w.key("loops"); w.arr();
    int rc = cif_container_get_all_loops(c, &ls);
    if (rc == CIF_OK) {
        for (cif_loop_tp **l = ls; *l; ++l) {
            UChar *cat = nullptr; UChar **names = nullptr;
            w.obj();
            if (cif_loop_get_category(*l, &cat) == CIF_OK) { w.key("cat"); if (cat) w.str(fromU(cat)); else w.null(); free(cat); }
            w.key("items"); w.arr();
            if (cif_loop_get_names(*l, &names) == CIF_OK) { for (UChar **n = names; *n; ++n) { w.str(fromU(*n)); free(*n); } free(names); }
            w.end_arr();
            cif_pktitr_tp *it = nullptr;
            int r = cif_loop_get_packets(*l, &it);
            w.kv("itr_rc", r);
            w.key("packets"); w.arr();
            if (r == CIF_OK) {
                cif_packet_tp *p = nullptr;
                while ((r = cif_pktitr_next_packet(it, &p)) == CIF_OK) dump_packet(w, p);
                cif_packet_free(p);
                cif_pktitr_abort(it);
            }
            w.end_arr();
            w.end_obj();
            cif_loop_free(*l);
        }
        free(ls);
    }
    w.end_arr();
    w.kv("loops_rc", rc);
    w.end_obj();
}

static void api_project_cif(W &w, cif_tp *cif) {
    cif_block_tp **bl = nullptr;
    w.obj(); w.key("blocks"); w.arr();
    int rc = cif_get_all_blocks(cif, &bl);
    if (rc == CIF_OK) { for (cif_block_tp **b = bl; *b; ++b) { api_project_container(w, *b); cif_container_free(*b); } free(bl); }
    w.end_arr(); w.kv("rc", rc); w.end_obj();
}

// ------------------------------------------------------------------------------------------------------------------
// scripted handlers (cif_walk and cif_parse)
struct Ctx {
    std::vector<long long> script;   // k-th handler callback returns script[k] (0 when exhausted)
    size_t k = 0;
    std::vector<long long> escript;  // k-th error callback returns escript[k]; afterwards edefault
    long long edefault = 0;
    size_t ek = 0;
    W log;
    bool query = true;               // query the handles given to callbacks
    bool ws = false;                 // log whitespace callbacks
    bool syntax = false;             // log dataname/keyword callbacks
    long long maxcb = 2000000;
    long long ncb = 0;
    Ctx() { log.arr(); }
    int answer() { int r = k < script.size() ? (int) script[k] : 0; k++; return r; }
};

static void log_container(Ctx *c, const char *what, cif_container_tp *cont) {
    c->log.obj(); c->log.kvs("cb", what);
    if (!cont) { c->log.key("h"); c->log.null(); }
    else if (c->query) {
        UChar *code = nullptr;
        int rc = cif_container_get_code(cont, &code);
        if (rc == CIF_OK) { c->log.kvu("code", fromU(code)); free(code); } else c->log.kv("code_rc", rc);
    }
}
static int h_cif_start(cif_tp *cif, void *x) { Ctx *c = (Ctx *) x; c->log.obj(); c->log.kvs("cb", "cif_start"); c->log.kv("h", cif ? 1 : 0); int r = c->answer(); c->log.kv("r", r); c->log.end_obj(); return r; }
static int h_cif_end(cif_tp *cif, void *x) { Ctx *c = (Ctx *) x; c->log.obj(); c->log.kvs("cb", "cif_end"); c->log.kv("h", cif ? 1 : 0); int r = c->answer(); c->log.kv("r", r); c->log.end_obj(); return r; }
static int h_block_start(cif_container_tp *b, void *x) { Ctx *c = (Ctx *) x; log_container(c, "block_start", b); int r = c->answer(); c->log.kv("r", r); c->log.end_obj(); return r; }
static int h_block_end(cif_container_tp *b, void *x) { Ctx *c = (Ctx *) x; log_container(c, "block_end", b); int r = c->answer(); c->log.kv("r", r); c->log.end_obj(); return r; }
static int h_frame_start(cif_container_tp *b, void *x) { Ctx *c = (Ctx *) x; log_container(c, "frame_start", b); int r = c->answer(); c->log.kv("r", r); c->log.end_obj(); return r; }
static int h_frame_end(cif_container_tp *b, void *x) { Ctx *c = (Ctx *) x; log_container(c, "frame_end", b); int r = c->answer(); c->log.kv("r", r); c->log.end_obj(); return r; }
static void log_loop(Ctx *c, const char *what, cif_loop_tp *l) {
    c->log.obj(); c->log.kvs("cb", what);
    if (!l) { c->log.key("h"); c->log.null(); return; }
    if (c->query) {
        UChar *cat = nullptr; UChar **names = nullptr;
        int rc = cif_loop_get_category(l, &cat);
        if (rc == CIF_OK) { c->log.key("cat"); if (cat) c->log.str(fromU(cat)); else c->log.null(); free(cat); } else c->log.kv("cat_rc", rc);
        rc = cif_loop_get_names(l, &names);
        if (rc == CIF_OK && names) { c->log.key("names"); c->log.arr(); for (UChar **n = names; *n; ++n) { c->log.str(fromU(*n)); free(*n); } c->log.end_arr(); free(names); }
        else c->log.kv("names_rc", rc);
    }
}
static int h_loop_start(cif_loop_tp *l, void *x) { Ctx *c = (Ctx *) x; log_loop(c, "loop_start", l); int r = c->answer(); c->log.kv("r", r); c->log.end_obj(); return r; }
static int h_loop_end(cif_loop_tp *l, void *x) { Ctx *c = (Ctx *) x; log_loop(c, "loop_end", l); int r = c->answer(); c->log.kv("r", r); c->log.end_obj(); return r; }
static void log_packet(Ctx *c, const char *what, cif_packet_tp *p) {
    c->log.obj(); c->log.kvs("cb", what);
    if (!p) { c->log.key("h"); c->log.null(); return; }
    if (c->query) { c->log.key("pkt"); dump_packet(c->log, p); }
}
static int h_packet_start(cif_packet_tp *p, void *x) { Ctx *c = (Ctx *) x; log_packet(c, "packet_start", p); int r = c->answer(); c->log.kv("r", r); c->log.end_obj(); return r; }
static int h_packet_end(cif_packet_tp *p, void *x) { Ctx *c = (Ctx *) x; log_packet(c, "packet_end", p); int r = c->answer(); c->log.kv("r", r); c->log.end_obj(); return r; }
static int h_item(UChar *name, cif_value_tp *v, void *x) {
    Ctx *c = (Ctx *) x;
    c->log.obj(); c->log.kvs("cb", "item");
    c->log.key("name"); if (name) c->log.str(fromU(name)); else c->log.null();
    if (c->query) { c->log.key("v"); dump_value(c->log, v, false); }
    int r = c->answer(); c->log.kv("r", r); c->log.end_obj(); return r;
}
static volatile unsigned sink;
static int h_error(int code, size_t line, size_t column, const UChar *text, size_t length, void *x) {
    Ctx *c = (Ctx *) x;
    c->log.obj(); c->log.kvs("cb", "error"); c->log.kv("code", code); c->log.kv("line", (long long) line); c->log.kv("col", (long long) column);
    c->log.kv("len", (long long) length);
    if (text) { unsigned s = 0; for (size_t i = 0; i < length; i++) s += text[i]; sink = s; size_t n = length < 40 ? length : 40; c->log.key("text"); c->log.str((const char16_t *) text, n); }
    else { c->log.key("text"); c->log.null(); }
    int r = c->ek < c->escript.size() ? (int) c->escript[c->ek] : (int) c->edefault;
    c->ek++;
    c->log.kv("r", r); c->log.end_obj();
    return r;
}
static void h_ws(size_t line, size_t column, const UChar *tok, size_t length, void *x) {
    Ctx *c = (Ctx *) x; if (!c->ws) return;
    c->log.obj(); c->log.kvs("cb", "ws"); c->log.kv("line", (long long) line); c->log.kv("col", (long long) column); c->log.key("t"); c->log.str((const char16_t *) tok, length); c->log.end_obj();
}
static void h_kw(size_t line, size_t column, const UChar *tok, size_t length, void *x) {
    Ctx *c = (Ctx *) x; if (!c->syntax) return;
    c->log.obj(); c->log.kvs("cb", "kw"); c->log.kv("line", (long long) line); c->log.kv("col", (long long) column); c->log.key("t"); c->log.str((const char16_t *) tok, length); c->log.end_obj();
}
static void h_dn(size_t line, size_t column, const UChar *tok, size_t length, void *x) {
    Ctx *c = (Ctx *) x; if (!c->syntax) return;
    c->log.obj(); c->log.kvs("cb", "dn"); c->log.kv("line", (long long) line); c->log.kv("col", (long long) column); c->log.key("t"); c->log.str((const char16_t *) tok, length); c->log.end_obj();
}
static cif_handler_tp full_handler = { h_cif_start, h_cif_end, h_block_start, h_block_end, h_frame_start, h_frame_end,
                                       h_loop_start, h_loop_end, h_packet_start, h_packet_end, h_item };

static void load_script(const J *j, std::vector<long long> &v) { if (j && j->t == J::ARR) for (auto &e : j->a) v.push_back(e.isint ? e.i : (long long) e.d); }

static std::string unhex(const std::string &h) {
    std::string r;
    for (size_t i = 0; i + 1 < h.size(); i += 2) r.push_back((char) (JParser::hexv(h[i]) * 16 + JParser::hexv(h[i + 1])));
    return r;
}
static std::string tohex(const std::string &b) {
    static const char *d = "0123456789abcdef"; std::string r;
    for (unsigned char c : b) { r.push_back(d[c >> 4]); r.push_back(d[c & 15]); }
    return r;
}
static std::string utf8(const ustr &u) {
    std::string r;
    for (size_t i = 0; i < u.size(); i++) {
        uint32_t c = u[i];
        if (c >= 0xD800 && c < 0xDC00 && i + 1 < u.size() && u[i + 1] >= 0xDC00 && u[i + 1] < 0xE000) { c = 0x10000 + ((c - 0xD800) << 10) + (u[i + 1] - 0xDC00); i++; }
        if (c < 0x80) r.push_back((char) c);
        else if (c < 0x800) { r.push_back((char) (0xC0 | (c >> 6))); r.push_back((char) (0x80 | (c & 0x3F))); }
        else if (c < 0x10000) { r.push_back((char) (0xE0 | (c >> 12))); r.push_back((char) (0x80 | ((c >> 6) & 0x3F))); r.push_back((char) (0x80 | (c & 0x3F))); }
        else { r.push_back((char) (0xF0 | (c >> 18))); r.push_back((char) (0x80 | ((c >> 12) & 0x3F))); r.push_back((char) (0x80 | ((c >> 6) & 0x3F))); r.push_back((char) (0x80 | (c & 0x3F))); }
    }
    return r;
}

// facts about written bytes
static void byte_facts(W &w, const std::string &b) {
    // utf-8 validity and max line length in code points
    bool valid = true; size_t i = 0, maxline = 0, cur = 0, lines = 0; bool ascii = true, cif11 = true, prevcr = false;
    while (i < b.size()) {
        unsigned char c = b[i]; uint32_t cp; int n;
        if (c < 0x80) { cp = c; n = 0; } else if ((c & 0xE0) == 0xC0) { cp = c & 0x1F; n = 1; } else if ((c & 0xF0) == 0xE0) { cp = c & 0x0F; n = 2; }
        else if ((c & 0xF8) == 0xF0) { cp = c & 0x07; n = 3; } else { valid = false; break; }
        if (i + n >= b.size() + (n ? 0 : 1)) { if (n) { valid = false; break; } }
        for (int k = 1; k <= n; k++) { if (i + k >= b.size() || (b[i + k] & 0xC0) != 0x80) { valid = false; break; } cp = (cp << 6) | (b[i + k] & 0x3F); }
        if (!valid) break;
        if ((n == 1 && cp < 0x80) || (n == 2 && cp < 0x800) || (n == 3 && cp < 0x10000) || cp > 0x10FFFF || (cp >= 0xD800 && cp < 0xE000)) { valid = false; break; }
        i += n + 1;
        if (cp >= 0x80) ascii = false;
        if (!(cp == 9 || cp == 10 || cp == 13 || (cp >= 32 && cp < 127))) cif11 = false;
        // a line ends at LF, at CR and at a CR LF pair (a CR inside a value is written as it is)
        if (cp == '\n') { if (!prevcr) { if (cur > maxline) maxline = cur; cur = 0; lines++; } prevcr = false; }
        else if (cp == '\r') { if (cur > maxline) maxline = cur; cur = 0; lines++; prevcr = true; }
        else { cur++; prevcr = false; }
    }
    if (cur > maxline) maxline = cur;
    w.kv("utf8", valid ? 1 : 0); w.kv("maxline", (long long) maxline); w.kv("lines", (long long) lines); w.kv("ascii", ascii ? 1 : 0); w.kv("cif11chars", cif11 ? 1 : 0);
    w.kv("nbytes", (long long) b.size());
}

// ------------------------------------------------------------------------------------------------------------------
static std::string env_state() {
    const char *l = setlocale(LC_NUMERIC, nullptr);
    std::string s = l ? l : "?";
    s += "/"; s += std::to_string(fegetround());
    return s;
}

template <class M> static typename M::mapped_type find(M &m, const std::string &k) { auto it = m.find(k); return it == m.end() ? nullptr : it->second; }

static void free_all() {
    for (auto &p : itrs) if (p.second) cif_pktitr_abort(p.second);
    itrs.clear();
    for (auto &p : loops) if (p.second) cif_loop_free(p.second);
    loops.clear();
    for (auto &p : conts) if (p.second) cif_container_free(p.second);
    conts.clear();
    for (auto &p : pkts) if (p.second) cif_packet_free(p.second);
    pkts.clear();
    for (auto &p : vals) if (p.second) cif_value_free(p.second);
    vals.clear(); refs.clear();
    for (auto &p : cifs) if (p.second) cif_destroy(p.second);
    cifs.clear();
}

// drop (free) loop handles that were obtained through container handle key hc, and iterators on them
static std::map<std::string, std::string> loop_via;   // loop handle -> container handle key
static std::map<std::string, std::string> itr_via;    // iterator -> loop handle key
static std::map<std::string, std::string> cont_cif;   // container handle -> cif key
static void drop_loop_handle(const std::string &lk) {
    for (auto it = itr_via.begin(); it != itr_via.end();) {
        if (it->second == lk) { cif_pktitr_tp *x = find(itrs, it->first); if (x) cif_pktitr_abort(x); itrs.erase(it->first); it = itr_via.erase(it); } else ++it;
    }
    cif_loop_tp *l = find(loops, lk);
    if (l) cif_loop_free(l);
    loops.erase(lk); loop_via.erase(lk);
}
static void drop_loops_via(const std::string &hc) {
    std::vector<std::string> ks;
    for (auto &p : loop_via) if (p.second == hc) ks.push_back(p.first);
    for (auto &k : ks) drop_loop_handle(k);
}
static void set_cont(const std::string &h, cif_container_tp *c, const std::string &cifk) {
    if (h.empty()) { if (c) cif_container_free(c); return; }
    cif_container_tp *old = find(conts, h);
    if (old) { drop_loops_via(h); cif_container_free(old); }
    conts[h] = c; cont_cif[h] = cifk;
}
static void set_loop(const std::string &h, cif_loop_tp *l, const std::string &via) {
    if (h.empty()) { if (l) cif_loop_free(l); return; }
    if (find(loops, h)) drop_loop_handle(h);
    loops[h] = l; loop_via[h] = via;
}

static void names_array(const J *j, std::vector<ustr> &store, std::vector<UChar *> &ptrs) {
    if (j) for (auto &e : j->a) store.push_back(e.s);
    for (auto &s : store) ptrs.push_back(const_cast<UChar *>(U(s)));
    ptrs.push_back(nullptr);
}

struct IoErrSrc { const std::string *data; size_t pos, limit; };
static ssize_t ioerr_read(void *c, char *buf, size_t size) {
    IoErrSrc *s = (IoErrSrc *) c;
    size_t end = std::min(s->limit, s->data->size());
    if (s->pos >= end) { if (s->pos >= s->limit) { errno = EIO; return -1; } return 0; }
    size_t n = std::min(size, end - s->pos);
    memcpy(buf, s->data->data() + s->pos, n); s->pos += n;
    return (ssize_t) n;
}

static void do_parse(const J &cmd, W &w) {
    std::string bytes;
    if (cmd.has("hex")) bytes = unhex(cmd.gets("hex"));
    else if (const ustr *t = cmd.getu("text")) bytes = utf8(*t);
    else if (cmd.has("file")) { FILE *f = fopen(cmd.gets("file").c_str(), "rb"); if (f) { char buf[65536]; size_t n; while ((n = fread(buf, 1, sizeof buf, f)) > 0) bytes.append(buf, n); fclose(f); } }
    // optional repetition for big inputs: {"pad":{"at":offset,"byte":32,"count":n}}
    struct cif_parse_opts_s *opts = nullptr;
    if (cif_parse_options_create(&opts) != CIF_OK) { w.kvs("err", "opts"); return; }
    Ctx ctx;
    std::string enc = cmd.gets("enc", "");
    std::string xws = cmd.gets("extra_ws", ""), xeol = cmd.gets("extra_eol", "");
    const J *o = cmd.get("opts");
    if (o) {
        opts->prefer_cif2 = (int) o->geti("prefer_cif2", 0);
        opts->force_default_encoding = (int) o->geti("force", 0);
        opts->line_folding_modifier = (int) o->geti("fold", 0);
        opts->text_prefixing_modifier = (int) o->geti("prefix", 0);
        opts->max_frame_depth = (int) o->geti("max_frame_depth", 1);
        enc = o->gets("enc", enc.c_str());
        // the extra character sets are byte strings: code units below 256 are handed over as single bytes (so that C1
        // controls and other bytes >= 0x80 can be requested), anything above is dropped
        auto bytes_of = [&](const char *k, std::string &dst) { const ustr *u = o->getu(k); if (u) { dst.clear(); for (char16_t c : *u) if (c > 0 && c < 256) dst.push_back((char) (unsigned char) c); } };
        bytes_of("extra_ws", xws); bytes_of("extra_eol", xeol);
    }
    if (!enc.empty()) opts->default_encoding_name = enc.c_str();
    if (!xws.empty()) opts->extra_ws_chars = xws.c_str();
    if (!xeol.empty()) opts->extra_eol_chars = xeol.c_str();
    opts->user_data = &ctx;
    if (cmd.geti("handler", 0)) { opts->handler = &full_handler; load_script(cmd.get("script"), ctx.script); }
    ctx.query = cmd.geti("query", 1) != 0;
    ctx.ws = cmd.geti("ws", 0) != 0; ctx.syntax = cmd.geti("syntax", 0) != 0;
    if (ctx.ws) opts->whitespace_callback = h_ws;
    // syntax: 1 both syntax callbacks, 2 the data-name callback alone, 3 the keyword callback alone
    if (ctx.syntax) { long m = (long) cmd.geti("syntax", 0); if (m != 2) opts->keyword_callback = h_kw; if (m != 3) opts->dataname_callback = h_dn; }
    std::string ecb = cmd.gets("errors", "accept");   // accept | die | null | script
    if (ecb == "accept") { opts->error_callback = h_error; ctx.edefault = 0; }
    else if (ecb == "reject") { opts->error_callback = h_error; ctx.edefault = -7; }
    else if (ecb == "script") { opts->error_callback = h_error; load_script(cmd.get("escript"), ctx.escript); ctx.edefault = cmd.geti("edefault", 0); }
    else if (ecb == "die") { opts->error_callback = cif_parse_error_die; }
    else if (ecb == "ignore") { opts->error_callback = cif_parse_error_ignore; }
    else { opts->error_callback = nullptr; }

    std::string target = cmd.gets("cif", "");
    cif_tp *cif = nullptr, **cifp = nullptr;
    bool isnew = false;
    if (!target.empty()) { cif = find(cifs, target); isnew = (cif == nullptr); cifp = &cif; }
    FILE *f = nullptr;
    IoErrSrc iosrc{&bytes, 0, (size_t) cmd.geti("ioerr_after", 0)};
    if (cmd.has("ioerr_after")) {
        // a stream whose read fails (EIO) once `ioerr_after` bytes have been delivered
        cookie_io_functions_t io = {ioerr_read, nullptr, nullptr, nullptr};
        f = fopencookie(&iosrc, "rb", io);
    } else f = fmemopen(bytes.empty() ? (void *) "" : (void *) bytes.data(), bytes.size(), "rb");
    if (!f) { f = tmpfile(); }
    std::string before = env_state();
    int rc = FW(cif_parse(f, cmd.geti("noopts", 0) ? nullptr : opts, cifp));
    std::string after = env_state();
    fclose(f);
    if (!target.empty() && cif) cifs[target] = cif;
    free(opts);
    ctx.log.end_arr();
    w.kv("rc", rc); w.kv("isnew", isnew ? 1 : 0); w.kv("havecif", cif ? 1 : 0);
    w.key("log"); w.raw(ctx.log.s);
    if (before != after) { w.kvs("env_before", before.c_str()); w.kvs("env_after", after.c_str()); }
}

static void do_write(const J &cmd, W &w) {
    cif_tp *cif = find(cifs, cmd.gets("cif"));
    if (!cif) { w.kvs("err", "nocif"); return; }
    struct cif_write_opts_s *wo = nullptr;
    cif_write_options_create(&wo);
    wo->cif_version = (int) cmd.geti("version", 0);
    char *buf = nullptr; size_t len = 0;
    FILE *f = open_memstream(&buf, &len);
    std::string before = env_state();
    int rc = FW(cif_write(f, cmd.geti("noopts", 0) ? nullptr : wo, cif));
    std::string after = env_state();
    fclose(f);
    free(wo);
    std::string bytes(buf ? buf : "", len);
    free(buf);
    w.kv("rc", rc);
    byte_facts(w, bytes);
    if (cmd.geti("bytes", 1)) w.kvs("hex", tohex(bytes).c_str());
    std::string head = bytes.substr(0, 11);
    w.kvs("head", tohex(head).c_str());
    if (before != after) { w.kvs("env_before", before.c_str()); w.kvs("env_after", after.c_str()); }
    if (const J *r = cmd.get("reparse")) {
        // re-parse what was written into a new CIF under key r.cif
        J c2 = *r;
        c2.o.emplace_back("hex", J()); c2.o.back().second.t = J::STR; for (char ch : tohex(bytes)) c2.o.back().second.s.push_back(ch);
        w.key("reparse"); w.obj(); do_parse(c2, w); w.end_obj();
    }
}

// ------------------------------------------------------------------------------------------------------------------
// ledger mode (C16): what the caller owns before / after each command, as (kind:address) names
static bool ledger_on = false;
static long long quiet_calls = 0;
static void ledger_snapshot(std::set<std::string> &s) {
    char b[64];
#define SNAP(M, K) for (auto &p : M) if (p.second) { snprintf(b, sizeof b, K ":%p", (void *) p.second); s.insert(b); }
    SNAP(cifs, "cif") SNAP(conts, "cont") SNAP(loops, "loop") SNAP(itrs, "itr") SNAP(pkts, "pkt") SNAP(vals, "val")
#undef SNAP
}

static long long handle_one(const J &cmd, W &w) {
    std::string op = cmd.gets("op");
    w.kvs("op", op.c_str());
    if (cmd.has("id")) w.kv("id", cmd.geti("id"));
    std::string env0 = env_state();
    int rc = -1000;
    bool has_rc = true;

    if (op == "reset") {
        free_all();
        loop_via.clear(); itr_via.clear(); cont_cif.clear();
        has_rc = false;
#ifdef HAVE_LSAN
        if (cmd.geti("leakcheck", 1)) w.kv("leak", __lsan_do_recoverable_leak_check());
        if (ledger_on) w.kv("live", (long long) __sanitizer_get_current_allocated_bytes());
#endif
    } else if (op == "ledger") {
        has_rc = false;
        if (cmd.has("on")) ledger_on = cmd.geti("on", 1) != 0;
        if (cmd.has("mark")) w.kvs("mark", cmd.gets("mark").c_str());
    } else if (op == "errlist") {
        has_rc = false;
        w.kv("nerr", cif_nerr); w.kv("slot", (long long) sizeof(cif_errlist[0])); w.key("msgs"); w.arr();
        for (int i = 0; i < cif_nerr; i++) w.cstr(cif_errlist[i]);
        w.end_arr();
    } else if (op == "cif_create") {
        cif_tp *c = nullptr; rc = FW(cif_create(&c));
        if (rc == CIF_OK) { std::string k = cmd.gets("cif"); if (find(cifs, k)) cif_destroy(cifs[k]); cifs[k] = c; }
    } else if (op == "cif_destroy") {
        std::string k = cmd.gets("cif"); cif_tp *c = find(cifs, k);
        if (!c) { w.kvs("err", "nocif"); return 0; }
        // handles of this cif become unusable: free them first
        std::vector<std::string> hs;
        for (auto &p : cont_cif) if (p.second == k) hs.push_back(p.first);
        for (auto &h : hs) { drop_loops_via(h); cif_container_tp *x = find(conts, h); if (x) cif_container_free(x); conts.erase(h); cont_cif.erase(h); }
        rc = FW(cif_destroy(c)); cifs.erase(k);
    } else if (op == "create_block" || op == "get_block") {
        std::string k = cmd.gets("cif"); cif_tp *c = find(cifs, k);
        if (!c) { w.kvs("err", "nocif"); return 0; }
        const ustr *code = cmd.getu("code");
        std::string h = cmd.gets("h");
        cif_container_tp *b = nullptr;
        bool want = !h.empty();
        if (op == "create_block") rc = FW(cif_create_block(c, code ? U(*code) : nullptr, want ? &b : nullptr));
        else rc = FW(cif_get_block(c, code ? U(*code) : nullptr, want ? &b : nullptr));
        if (rc == CIF_OK && want) set_cont(h, b, k);
    } else if (op == "get_all_blocks") {
        cif_tp *c = find(cifs, cmd.gets("cif"));
        if (!c) { w.kvs("err", "nocif"); return 0; }
        cif_block_tp **bl = nullptr; rc = FW(cif_get_all_blocks(c, &bl));
        w.key("codes"); w.arr();
        if (rc == CIF_OK) { for (cif_block_tp **b = bl; *b; ++b) { UChar *code = nullptr; if (cif_container_get_code(*b, &code) == CIF_OK) { w.str(fromU(code)); free(code); } cif_container_free(*b); } free(bl); }
        w.end_arr();
    } else if (op == "create_frame" || op == "get_frame") {
        std::string ck = cmd.gets("cont"); cif_container_tp *c = find(conts, ck);
        if (!c) { w.kvs("err", "nocont"); return 0; }
        const ustr *code = cmd.getu("code"); std::string h = cmd.gets("h");
        cif_container_tp *f = nullptr; bool want = !h.empty();
        static const ustr empty;
        if (op == "create_frame") rc = FW(cif_container_create_frame(c, U(code ? *code : empty), want ? &f : nullptr));
        else rc = FW(cif_container_get_frame(c, U(code ? *code : empty), want ? &f : nullptr));
        if (rc == CIF_OK && want) set_cont(h, f, cont_cif[ck]);
    } else if (op == "get_all_frames") {
        cif_container_tp *c = find(conts, cmd.gets("cont"));
        if (!c) { w.kvs("err", "nocont"); return 0; }
        cif_frame_tp **fl = nullptr; rc = FW(cif_container_get_all_frames(c, &fl));
        w.key("codes"); w.arr();
        if (rc == CIF_OK) { for (cif_frame_tp **b = fl; *b; ++b) { UChar *code = nullptr; if (cif_container_get_code(*b, &code) == CIF_OK) { w.str(fromU(code)); free(code); } cif_container_free(*b); } free(fl); }
        w.end_arr();
    } else if (op == "get_code") {
        cif_container_tp *c = find(conts, cmd.gets("cont"));
        if (!c) { w.kvs("err", "nocont"); return 0; }
        UChar *code = nullptr; rc = FW(cif_container_get_code(c, &code));
        if (rc == CIF_OK) { w.kvu("code", fromU(code)); free(code); }
    } else if (op == "assert_block") {
        cif_container_tp *c = find(conts, cmd.gets("cont"));
        if (!c) { w.kvs("err", "nocont"); return 0; }
        rc = FW(cif_container_assert_block(c));
    } else if (op == "container_free") {
        std::string ck = cmd.gets("cont"); cif_container_tp *c = find(conts, ck);
        if (!c) { w.kvs("err", "nocont"); return 0; }
        drop_loops_via(ck); cif_container_free(c); conts.erase(ck); cont_cif.erase(ck); has_rc = false;
    } else if (op == "container_destroy") {
        std::string ck = cmd.gets("cont"); cif_container_tp *c = find(conts, ck);
        if (!c) { w.kvs("err", "nocont"); return 0; }
        drop_loops_via(ck);
        rc = FW(cif_container_destroy(c));
        // the handle is released by the library when the statement executed (CIF_OK or CIF_INVALID_HANDLE)
        if (rc == CIF_OK || rc == CIF_INVALID_HANDLE) { conts.erase(ck); cont_cif.erase(ck); }
    } else if (op == "create_loop") {
        std::string ck = cmd.gets("cont"); cif_container_tp *c = find(conts, ck);
        if (!c) { w.kvs("err", "nocont"); return 0; }
        const ustr *cat = cmd.getu("category");
        std::vector<ustr> store; std::vector<UChar *> ptrs; names_array(cmd.get("names"), store, ptrs);
        std::string h = cmd.gets("h"); cif_loop_tp *l = nullptr; bool want = !h.empty();
        rc = FW(cif_container_create_loop(c, cat ? U(*cat) : nullptr, cmd.geti("nullnames", 0) ? nullptr : ptrs.data(), want ? &l : nullptr));
        if (rc == CIF_OK && want) set_loop(h, l, ck);
    } else if (op == "get_category_loop" || op == "get_item_loop") {
        std::string ck = cmd.gets("cont"); cif_container_tp *c = find(conts, ck);
        if (!c) { w.kvs("err", "nocont"); return 0; }
        std::string h = cmd.gets("h"); cif_loop_tp *l = nullptr; bool want = !h.empty();
        if (op == "get_category_loop") { const ustr *cat = cmd.getu("category"); rc = FW(cif_container_get_category_loop(c, cat ? U(*cat) : nullptr, want ? &l : nullptr)); }
        else { const ustr *n = cmd.getu("name"); static const ustr e; rc = FW(cif_container_get_item_loop(c, U(n ? *n : e), want ? &l : nullptr)); }
        if (rc == CIF_OK && want) {
            // report what the handle says about itself
            UChar *cat = nullptr; if (cif_loop_get_category(l, &cat) == CIF_OK) { w.key("cat"); if (cat) w.str(fromU(cat)); else w.null(); free(cat); }
            set_loop(h, l, ck);
        }
    } else if (op == "get_all_loops") {
        cif_container_tp *c = find(conts, cmd.gets("cont"));
        if (!c) { w.kvs("err", "nocont"); return 0; }
        cif_loop_tp **ls = nullptr; rc = FW(cif_container_get_all_loops(c, &ls));
        w.key("loops"); w.arr();
        if (rc == CIF_OK) {
            for (cif_loop_tp **l = ls; *l; ++l) {
                UChar *cat = nullptr; UChar **names = nullptr;
                w.obj();
                if (cif_loop_get_category(*l, &cat) == CIF_OK) { w.key("cat"); if (cat) w.str(fromU(cat)); else w.null(); free(cat); }
                int r2 = cif_loop_get_names(*l, &names);
                w.key("names"); w.arr();
                if (r2 == CIF_OK) { for (UChar **n = names; *n; ++n) { w.str(fromU(*n)); free(*n); } free(names); }
                w.end_arr(); w.end_obj();
                cif_loop_free(*l);
            }
            free(ls);
        }
        w.end_arr();
    } else if (op == "prune") {
        cif_container_tp *c = find(conts, cmd.gets("cont"));
        if (!c) { w.kvs("err", "nocont"); return 0; }
        rc = FW(cif_container_prune(c));
    } else if (op == "get_value") {
        cif_container_tp *c = find(conts, cmd.gets("cont"));
        if (!c) { w.kvs("err", "nocont"); return 0; }
        const ustr *n = cmd.getu("name"); static const ustr e;
        cif_value_tp *v = nullptr;
        bool want = cmd.geti("want", 1) != 0;
        if (cmd.geti("reuse", 0)) { cif_value_create(CIF_LIST_KIND, &v); if (v) { cif_value_tp *m = nullptr; if (cif_value_create(CIF_CHAR_KIND, &m) == CIF_OK) { static const UChar prev[] = { 'p', 'r', 'e', 'v', 0 }; cif_value_copy_char(m, prev); cif_value_insert_element_at(v, 0, m); cif_value_free(m); } } }
        rc = FW(cif_container_get_value(c, U(n ? *n : e), want ? &v : nullptr));
        if (want && (rc == CIF_OK || rc == CIF_AMBIGUOUS_ITEM)) { w.key("v"); dump_value(w, v); }
        // a value object the caller handed in stays the caller's, and valid, when the call fails: look at all of it
        else if (want && v != nullptr) { w.key("kept"); dump_value(w, v); }
        cif_value_free(v);
    } else if (op == "set_value") {
        cif_container_tp *c = find(conts, cmd.gets("cont"));
        if (!c) { w.kvs("err", "nocont"); return 0; }
        const ustr *n = cmd.getu("name");
        cif_value_tp *v = nullptr; int brc = CIF_OK;
        if (cmd.has("vh")) v = find(vals, cmd.gets("vh")); else if (cmd.has("v")) brc = build_value(*cmd.get("v"), &v);
        if (brc != CIF_OK) { w.kv("build_rc", brc); return 0; }
        rc = FW(cif_container_set_value(c, n ? U(*n) : nullptr, v));
        if (!cmd.has("vh")) cif_value_free(v);
    } else if (op == "remove_item") {
        cif_container_tp *c = find(conts, cmd.gets("cont"));
        if (!c) { w.kvs("err", "nocont"); return 0; }
        const ustr *n = cmd.getu("name");
        rc = FW(cif_container_remove_item(c, n ? U(*n) : nullptr));
    } else if (op == "loop_free") {
        std::string lk = cmd.gets("loop"); if (!find(loops, lk)) { w.kvs("err", "noloop"); return 0; }
        drop_loop_handle(lk); has_rc = false;
    } else if (op == "loop_destroy") {
        std::string lk = cmd.gets("loop"); cif_loop_tp *l = find(loops, lk);
        if (!l) { w.kvs("err", "noloop"); return 0; }
        // iterators over this handle would dangle: abort them first
        for (auto it = itr_via.begin(); it != itr_via.end();) { if (it->second == lk) { cif_pktitr_tp *x = find(itrs, it->first); if (x) cif_pktitr_abort(x); itrs.erase(it->first); it = itr_via.erase(it); } else ++it; }
        rc = FW(cif_loop_destroy(l));
        if (rc == CIF_OK) { loops.erase(lk); loop_via.erase(lk); }
    } else if (op == "loop_get_category") {
        cif_loop_tp *l = find(loops, cmd.gets("loop")); if (!l) { w.kvs("err", "noloop"); return 0; }
        UChar *cat = nullptr; rc = FW(cif_loop_get_category(l, &cat));
        if (rc == CIF_OK) { w.key("cat"); if (cat) w.str(fromU(cat)); else w.null(); free(cat); }
    } else if (op == "loop_set_category") {
        cif_loop_tp *l = find(loops, cmd.gets("loop")); if (!l) { w.kvs("err", "noloop"); return 0; }
        const ustr *cat = cmd.getu("category");
        rc = FW(cif_loop_set_category(l, cat ? U(*cat) : nullptr));
    } else if (op == "loop_get_names") {
        cif_loop_tp *l = find(loops, cmd.gets("loop")); if (!l) { w.kvs("err", "noloop"); return 0; }
        UChar **names = nullptr; rc = FW(cif_loop_get_names(l, &names));
        w.key("names"); w.arr();
        if (rc == CIF_OK) { for (UChar **n = names; *n; ++n) { w.str(fromU(*n)); free(*n); } free(names); }
        w.end_arr();
    } else if (op == "loop_add_item") {
        cif_loop_tp *l = find(loops, cmd.gets("loop")); if (!l) { w.kvs("err", "noloop"); return 0; }
        const ustr *n = cmd.getu("name"); static const ustr e;
        cif_value_tp *v = nullptr; int brc = CIF_OK;
        if (cmd.has("vh")) v = find(vals, cmd.gets("vh")); else if (cmd.has("v")) brc = build_value(*cmd.get("v"), &v);
        if (brc != CIF_OK) { w.kv("build_rc", brc); return 0; }
        rc = FW(cif_loop_add_item(l, U(n ? *n : e), v));
        if (!cmd.has("vh")) cif_value_free(v);
    } else if (op == "loop_add_packet") {
        cif_loop_tp *l = find(loops, cmd.gets("loop")); if (!l) { w.kvs("err", "noloop"); return 0; }
        cif_packet_tp *p = nullptr; bool own = false;
        if (cmd.has("ph")) p = find(pkts, cmd.gets("ph"));
        else { int brc = build_packet(*cmd.get("packet"), &p); own = true; if (brc != CIF_OK) { w.kv("build_rc", brc); return 0; } }
        if (!p) { w.kvs("err", "nopkt"); return 0; }
        rc = FW(cif_loop_add_packet(l, p));
        if (own) cif_packet_free(p);
    } else if (op == "get_packets") {
        std::string lk = cmd.gets("loop"); cif_loop_tp *l = find(loops, lk); if (!l) { w.kvs("err", "noloop"); return 0; }
        cif_pktitr_tp *it = nullptr; rc = FW(cif_loop_get_packets(l, &it));
        std::string ik = cmd.gets("itr");
        if (rc == CIF_OK) { if (find(itrs, ik)) { cif_pktitr_abort(itrs[ik]); } itrs[ik] = it; itr_via[ik] = lk; }
    } else if (op == "itr_next") {
        cif_pktitr_tp *it = find(itrs, cmd.gets("itr")); if (!it) { w.kvs("err", "noitr"); return 0; }
        cif_packet_tp *p = nullptr; bool want = cmd.geti("want", 1) != 0;
        std::string ph = cmd.gets("ph");
        if (!ph.empty() && find(pkts, ph)) p = pkts[ph];
        // "supply": the caller hands in a packet of its own to be filled: "empty" (no items) or "foreign" (one item that is
        // not in the loop); every item of the loop must be there (and found by name) afterwards
        std::string supply = cmd.gets("supply", "");
        if (p == nullptr && want && !supply.empty()) {
            std::vector<ustr> store; std::vector<UChar *> ptrs;
            if (supply == "foreign") store.push_back(u"_zz_supplied");
            for (auto &x : store) ptrs.push_back(const_cast<UChar *>(U(x)));
            ptrs.push_back(nullptr);
            if (cif_packet_create(&p, ptrs.data()) != CIF_OK) p = nullptr;
            w.kvs("supply", supply.c_str());
        }
        rc = FW(cif_pktitr_next_packet(it, want ? &p : nullptr));
        if (rc == CIF_OK && want) { w.key("pkt"); dump_packet(w, p); }
        if (!ph.empty()) { if (p) pkts[ph] = p; } else cif_packet_free(p);
    } else if (op == "itr_update") {
        cif_pktitr_tp *it = find(itrs, cmd.gets("itr")); if (!it) { w.kvs("err", "noitr"); return 0; }
        cif_packet_tp *p = nullptr; bool own = false;
        if (cmd.has("ph")) p = find(pkts, cmd.gets("ph"));
        else { int brc = build_packet(*cmd.get("packet"), &p); own = true; if (brc != CIF_OK) { w.kv("build_rc", brc); return 0; } }
        if (!p) { w.kvs("err", "nopkt"); return 0; }
        rc = FW(cif_pktitr_update_packet(it, p));
        if (own) cif_packet_free(p);
    } else if (op == "itr_remove") {
        cif_pktitr_tp *it = find(itrs, cmd.gets("itr")); if (!it) { w.kvs("err", "noitr"); return 0; }
        rc = FW(cif_pktitr_remove_packet(it));
    } else if (op == "itr_close" || op == "itr_abort") {
        std::string ik = cmd.gets("itr"); cif_pktitr_tp *it = find(itrs, ik); if (!it) { w.kvs("err", "noitr"); return 0; }
        rc = FW((op == "itr_close") ? cif_pktitr_close(it) : cif_pktitr_abort(it));
        itrs.erase(ik); itr_via.erase(ik);
    } else if (op == "project") {
        cif_tp *c = find(cifs, cmd.gets("cif")); if (!c) { w.kvs("err", "nocif"); return 0; }
        has_rc = false;
        w.key("state"); project_cif(w, c);
        if (cmd.geti("api", 0)) { w.key("api"); api_project_cif(w, c); }
    } else if (op == "walk") {
        cif_tp *c = find(cifs, cmd.gets("cif")); if (!c) { w.kvs("err", "nocif"); return 0; }
        Ctx ctx; load_script(cmd.get("script"), ctx.script); ctx.query = cmd.geti("query", 1) != 0;
        cif_handler_tp h = full_handler;
        if (const J *omit = cmd.get("omit")) for (auto &e : omit->a) {
            std::string n = narrow(e.s);
            if (n == "cif_start") h.handle_cif_start = nullptr; else if (n == "cif_end") h.handle_cif_end = nullptr;
            else if (n == "block_start") h.handle_block_start = nullptr; else if (n == "block_end") h.handle_block_end = nullptr;
            else if (n == "frame_start") h.handle_frame_start = nullptr; else if (n == "frame_end") h.handle_frame_end = nullptr;
            else if (n == "loop_start") h.handle_loop_start = nullptr; else if (n == "loop_end") h.handle_loop_end = nullptr;
            else if (n == "packet_start") h.handle_packet_start = nullptr; else if (n == "packet_end") h.handle_packet_end = nullptr;
            else if (n == "item") h.handle_item = nullptr;
        }
        rc = FW(cif_walk(c, &h, &ctx));
        ctx.log.end_arr();
        w.key("log"); w.raw(ctx.log.s);
        w.kv("autocommit", sqlite3_get_autocommit(c->db));
    } else if (op == "parse") {
        has_rc = false; do_parse(cmd, w);
    } else if (op == "write") {
        has_rc = false; do_write(cmd, w);
    }
    // ---- value / packet object operations ----------------------------------------------------------------------
    else if (op == "value_create") {
        cif_value_tp *v = nullptr; rc = FW(cif_value_create((cif_kind_tp) cmd.geti("kind", CIF_UNK_KIND), &v));
        if (rc == CIF_OK) { std::string k = cmd.gets("v"); if (find(vals, k)) cif_value_free(vals[k]); vals[k] = v; }
    } else if (op == "value_build") {
        cif_value_tp *v = nullptr; rc = build_value(*cmd.get("val"), &v);
        if (rc == CIF_OK) { std::string k = cmd.gets("v"); if (find(vals, k)) cif_value_free(vals[k]); vals[k] = v; }
    } else if (op == "value_free") {
        std::string k = cmd.gets("v"); cif_value_tp *v = find(vals, k); if (!v) { w.kvs("err", "noval"); return 0; }
        cif_value_free(v); vals.erase(k); has_rc = false;
    } else if (op == "value_dump") {
        std::string k = cmd.gets("v"); cif_value_tp *v = find(vals, k); if (!v) v = find(refs, k);
        if (!v) { w.kvs("err", "noval"); return 0; }
        has_rc = false; w.key("val"); dump_value(w, v);
    } else if (op == "value_op") {
        // generic operations on a value addressed by key (independent or interior reference)
        std::string k = cmd.gets("v"); cif_value_tp *v = find(vals, k); if (!v) v = find(refs, k);
        if (!v) { w.kvs("err", "noval"); return 0; }
        std::string f = cmd.gets("f");
        std::string ak = cmd.gets("arg"); cif_value_tp *arg = ak.empty() ? nullptr : (find(vals, ak) ? find(vals, ak) : find(refs, ak));
        const ustr *key = cmd.getu("key"); static const ustr e;
        size_t idx = (size_t) cmd.geti("index", 0);
        std::string outk = cmd.gets("out");
        if (f == "clean") { cif_value_clean(v); has_rc = false; }
        else if (f == "init") rc = FW(cif_value_init(v, (cif_kind_tp) cmd.geti("kind", CIF_UNK_KIND)));
        else if (f == "init_char") rc = FW(cif_value_init_char(v, udup(cmd.getu("text") ? *cmd.getu("text") : e)));
        else if (f == "copy_char") rc = FW(cif_value_copy_char(v, U(cmd.getu("text") ? *cmd.getu("text") : e)));
        else if (f == "parse_numb") { UChar *t = udup(cmd.getu("text") ? *cmd.getu("text") : e); rc = FW(cif_value_parse_numb(v, t)); if (rc != CIF_OK) free(t); }
        else if (f == "init_numb") rc = FW(cif_value_init_numb(v, hex_dbl(cmd.gets("val")), hex_dbl(cmd.gets("su")), (int) cmd.geti("scale", 0), (int) cmd.geti("mlz", 0)));
        else if (f == "autoinit_numb") rc = FW(cif_value_autoinit_numb(v, hex_dbl(cmd.gets("val")), hex_dbl(cmd.gets("su")), (unsigned) cmd.geti("rule", 19)));
        else if (f == "set_quoted") rc = FW(cif_value_set_quoted(v, cmd.geti("q", 0) ? CIF_QUOTED : CIF_NOT_QUOTED));
        else if (f == "try_quoted") rc = FW(cif_value_try_quoted(v, cmd.geti("q", 0) ? CIF_QUOTED : CIF_NOT_QUOTED));
        else if (f == "get_number") { double d = 0; rc = FW(cif_value_get_number(v, &d)); if (rc == CIF_OK) w.kvs("d", dbl_hex(d).c_str()); }
        else if (f == "get_su") { double d = 0; rc = FW(cif_value_get_su(v, &d)); if (rc == CIF_OK) w.kvs("d", dbl_hex(d).c_str()); }
        else if (f == "get_text") { UChar *t = nullptr; rc = FW(cif_value_get_text(v, &t)); if (rc == CIF_OK) { w.key("text"); if (t) w.str(fromU(t)); else w.null(); free(t); } }
        else if (f == "count") { size_t n = 0; rc = FW(cif_value_get_element_count(v, &n)); if (rc == CIF_OK) w.kv("n", (long long) n); }
        else if (f == "clone") {
            cif_value_tp *cl = nullptr; bool into = cmd.geti("into", 0) != 0;
            if (into) { cl = find(vals, outk); }
            rc = FW(cif_value_clone(v, &cl));
            if (rc == CIF_OK && !into) { if (find(vals, outk)) cif_value_free(vals[outk]); vals[outk] = cl; }
        }
        else if (f == "get_at") { cif_value_tp *el = nullptr; rc = FW(cif_value_get_element_at(v, idx, &el)); if (rc == CIF_OK && !outk.empty()) refs[outk] = el; }
        else if (f == "set_at") rc = FW(cif_value_set_element_at(v, idx, arg));
        else if (f == "insert_at") rc = FW(cif_value_insert_element_at(v, idx, arg));
        else if (f == "remove_at") {
            cif_value_tp *el = nullptr; bool cap = !outk.empty();
            rc = FW(cif_value_remove_element_at(v, idx, cap ? &el : nullptr));
            if (rc == CIF_OK && cap) { if (find(vals, outk)) cif_value_free(vals[outk]); vals[outk] = el; }
        }
        else if (f == "get_keys") { const UChar **keys = nullptr; rc = FW(cif_value_get_keys(v, &keys)); if (rc == CIF_OK) { w.key("keys"); w.arr(); for (const UChar **q = keys; *q; ++q) w.str(fromU(*q)); w.end_arr(); free(keys); } }
        else if (f == "set_key") rc = FW(cif_value_set_item_by_key(v, U(key ? *key : e), arg));
        else if (f == "get_key") { cif_value_tp *el = nullptr; rc = FW(cif_value_get_item_by_key(v, U(key ? *key : e), outk.empty() ? nullptr : &el)); if (rc == CIF_OK && !outk.empty()) refs[outk] = el; }
        else if (f == "remove_key") {
            cif_value_tp *el = nullptr; bool cap = !outk.empty();
            rc = FW(cif_value_remove_item_by_key(v, U(key ? *key : e), cap ? &el : nullptr));
            if (rc == CIF_OK && cap) { if (find(vals, outk)) cif_value_free(vals[outk]); vals[outk] = el; }
        }
        else { w.kvs("err", "badf"); return 0; }
    } else if (op == "forget_ref") {
        refs.erase(cmd.gets("v")); has_rc = false;
    } else if (op == "packet_create") {
        std::vector<ustr> store; std::vector<UChar *> ptrs; names_array(cmd.get("names"), store, ptrs);
        cif_packet_tp *p = nullptr; rc = FW(cif_packet_create(&p, cmd.geti("nullnames", 0) ? nullptr : ptrs.data()));
        if (rc == CIF_OK) { std::string k = cmd.gets("p"); if (find(pkts, k)) cif_packet_free(pkts[k]); pkts[k] = p; }
    } else if (op == "packet_op") {
        std::string k = cmd.gets("p"); cif_packet_tp *p = find(pkts, k); if (!p) { w.kvs("err", "nopkt"); return 0; }
        std::string f = cmd.gets("f"); const ustr *name = cmd.getu("name"); static const ustr e;
        std::string ak = cmd.gets("arg"); cif_value_tp *arg = ak.empty() ? nullptr : (find(vals, ak) ? find(vals, ak) : find(refs, ak));
        std::string outk = cmd.gets("out");
        if (f == "get_names") { const UChar **ns = nullptr; rc = FW(cif_packet_get_names(p, &ns)); if (rc == CIF_OK) { w.key("names"); w.arr(); for (const UChar **q = ns; *q; ++q) w.str(fromU(*q)); w.end_arr(); free(ns); } }
        else if (f == "set") rc = FW(cif_packet_set_item(p, U(name ? *name : e), arg));
        else if (f == "get") { cif_value_tp *el = nullptr; rc = FW(cif_packet_get_item(p, U(name ? *name : e), outk.empty() ? nullptr : &el)); if (rc == CIF_OK && !outk.empty()) refs[outk] = el; }
        else if (f == "remove") {
            cif_value_tp *el = nullptr; bool cap = !outk.empty();
            rc = FW(cif_packet_remove_item(p, U(name ? *name : e), cap ? &el : nullptr));
            if (rc == CIF_OK && cap) { if (find(vals, outk)) cif_value_free(vals[outk]); vals[outk] = el; }
        }
        else if (f == "free") { cif_packet_free(p); pkts.erase(k); has_rc = false; }
        else if (f == "dump") { has_rc = false; w.key("pkt"); dump_packet(w, p); }
        else { w.kvs("err", "badf"); return 0; }
    }
    // ---- utility functions -------------------------------------------------------------------------------------
    else if (op == "analyze") {
        const ustr *s = cmd.getu("s"); static const ustr e;
        struct cif_string_analysis_s a; memset(&a, 0, sizeof a);
        rc = FW(cif_analyze_string(U(s ? *s : e), (int) cmd.geti("unq", 1), (int) cmd.geti("triple", 1), (int32_t) cmd.geti("limit", 2048), &a));
        if (rc == CIF_OK) {
            w.key("delim"); w.str((const char16_t *) a.delim, a.delim_length < 4 ? a.delim_length : 3);
            w.kv("dl", a.delim_length); w.kv("len", a.length); w.kv("first", a.length_first); w.kv("last", a.length_last); w.kv("max", a.length_max);
            w.kv("lines", a.num_lines); w.kv("semis", a.max_semi_run); w.kv("textdelim", a.contains_text_delim ? 1 : 0);
            w.kv("resstart", a.has_reserved_start ? 1 : 0); w.kv("trail", a.has_trailing_ws ? 1 : 0);
        }
    } else if (op == "is_reserved") {
        const ustr *s = cmd.getu("s"); static const ustr e;
        has_rc = false; w.kv("res", cif_is_reserved_string(U(s ? *s : e)) ? 1 : 0);
    } else if (op == "normalize") {
        const ustr *s = cmd.getu("s"); static const ustr e; UChar *n = nullptr;
        rc = FW(cif_normalize(U(s ? *s : e), (int32_t) cmd.geti("len", -1), cmd.geti("discard", 0) ? nullptr : &n));
        if (rc == CIF_OK && n) { w.kvu("n", fromU(n)); free(n); }
    } else if (op == "ustrdup") {
        const ustr *s = cmd.getu("s"); UChar *d = cif_u_strdup(s ? U(*s) : nullptr);
        has_rc = false; w.key("d"); if (d) w.str(fromU(d)); else w.null(); free(d);
    } else if (op == "cstr_to_ustr") {
        std::string c = cmd.has("hex") ? unhex(cmd.gets("hex")) : cmd.gets("s");
        UChar *u = nullptr; rc = FW(cif_cstr_to_ustr(cmd.geti("null", 0) ? nullptr : c.c_str(), (int32_t) cmd.geti("len", -1), &u));
        if (rc == CIF_OK) { w.key("u"); if (u) w.str(fromU(u)); else w.null(); free(u); }
    } else if (op == "api_version") {
        char *v = nullptr; rc = FW(cif_get_api_version(&v)); if (rc == CIF_OK) { w.kvs("version", v); free(v); }
    } else if (op == "setenv") {
        has_rc = false;
        if (cmd.has("locale")) { const char *r = setlocale(LC_NUMERIC, cmd.gets("locale").c_str()); w.kvs("locale", r ? r : "FAILED"); }
        if (cmd.has("round")) { fesetround((int) cmd.geti("round")); }
    } else {
        w.kvs("err", "unknown-op"); return 0;
    }
    if (has_rc) w.kv("rc", rc);
    std::string env1 = env_state();
    if (env1 != env0 && op != "setenv") { w.kvs("env_before", env0.c_str()); w.kvs("env_after", env1.c_str()); }
    return 0;
}

static void crash_handler(int sig) {
    char buf[64]; int n = snprintf(buf, sizeof buf, "{\"crash\":\"signal\",\"sig\":%d}\n", sig);
    if (write(1, buf, n)) {}
    _exit(70);
}

int main(int argc, char **argv) {
    (void) argc; (void) argv;
    setvbuf(stdout, nullptr, _IOFBF, 1 << 16);
#ifdef CIFRUN_FAULT
    if (cifv_fault_install() != 0) { fputs("{\"err\":\"fault-install\"}\n", stdout); return 3; }
#endif
    const char *loc = getenv("CIFRUN_LOCALE");
    setlocale(LC_ALL, loc ? loc : "C.utf8");
#ifndef HAVE_LSAN
    signal(SIGSEGV, crash_handler); signal(SIGABRT, crash_handler); signal(SIGBUS, crash_handler); signal(SIGFPE, crash_handler);
#else
    (void) crash_handler;
#endif
    char *line = nullptr; size_t cap = 0; ssize_t n;
    while ((n = getline(&line, &cap, stdin)) > 0) {
        if (n == 1) continue;
        JParser jp(line, (size_t) n);
        J cmd = jp.val();
        W w; w.obj();
        if (!jp.ok || cmd.t != J::OBJ) { w.kvs("err", "badjson"); }
#ifdef CIFRUN_FAULT
        // "if_fired": the repetition of a call whose injected failure did not fire (the call then simply succeeded, and
        // applying it a second time is a different history) is skipped
        else if (cmd.geti("if_fired", 0) && !fw_fired) { w.kvs("op", cmd.gets("op").c_str()); w.kv("skipped", 1); }
        else if (cmd.has("fail_at")) {
            // C17: count the allocations requested during this call and make the k-th one fail (k = 0: count only)
            fw_pending = (long) cmd.geti("fail_at", 0); fw_mask = (unsigned) cmd.geti("fail_kinds", 7); fw_used = false; fw_n = 0; fw_fired = 0;
            handle_one(cmd, w);
            fw_pending = -1;
            w.kv("allocs", (long long) fw_n); w.kv("fired", fw_fired); w.kv("window", fw_used ? 1 : 0);
            if (fw_fired) { w.kvs("akind", fw_kind.c_str()); w.kvs("site", fw_site.c_str()); }
        }
#endif
        else if (!ledger_on) handle_one(cmd, w);
        else {
            std::set<std::string> s0, s1;
            ledger_snapshot(s0);
            handle_one(cmd, w);
            ledger_snapshot(s1);
            bool any = false;
            for (auto &x : s1) if (!s0.count(x)) any = true;
            for (auto &x : s0) if (!s1.count(x)) any = true;
            if (any) {
                w.key("lg"); w.obj();
                w.key("a"); w.arr(); for (auto &x : s1) if (!s0.count(x)) w.cstr(x.c_str()); w.end_arr();
                w.key("r"); w.arr(); for (auto &x : s0) if (!s1.count(x)) w.cstr(x.c_str()); w.end_arr();
                w.end_obj();
            }
        }
        w.end_obj();
        fputs(w.s.c_str(), stdout); fputc('\n', stdout);
        fflush(stdout);
    }
    free(line);
    free_all();
    return 0;
}
