#!/bin/bash
# Build the library from /repo's CURRENT WORKING TREE plus the cifrun harness, cached by content hash.
# usage: build.sh [asan|plain|fault]   -> prints the path of the cifrun binary on stdout
set -euo pipefail
VARIANT="${1:-asan}"
REPO="${CIF_REPO:-/repo}"
HERE="$(cd "$(dirname "$0")" && pwd)"
CACHE="${VERIF_BUILD_CACHE:-$HERE/../.build}"
mkdir -p "$CACHE"

# generated headers (git-ignored in the repository) -- ask the repository's own build for them
if [ ! -f "$REPO/config.h" ]; then (cd "$REPO" && ./configure >/dev/null 2>&1) || { echo "configure failed" >&2; exit 2; }; fi
make -s -C "$REPO/src" internal/schema.h internal/version.h >/dev/null 2>&1 || { echo "cannot generate headers" >&2; exit 2; }

case "$VARIANT" in
  asan)  CC=clang; CXX=clang++; FLAGS="-g -O1 -fsanitize=address,undefined -fno-sanitize-recover=undefined -fno-omit-frame-pointer";;
  plain) CC=gcc; CXX=g++; FLAGS="-g -O1";;
  fault) CC=clang; CXX=clang++; FLAGS="-g -O1 -fsanitize=address,undefined -fno-sanitize-recover=undefined -fno-omit-frame-pointer -DCIFRUN_FAULT";;
  *) echo "unknown variant" >&2; exit 2;;
esac
DEFS="-DHAVE_CONFIG_H -DCOMCIFS_CIF_API_VERIF"
SRCS="cif ciffile container loop map packet parser pktitr utils value"

HASH=$( { echo "$VARIANT $FLAGS $DEFS";
          cat "$REPO"/src/*.c "$REPO"/src/*.h "$REPO"/src/internal/*.h "$REPO"/uthash/*.h "$REPO"/config.h "$REPO"/misc/cif_schema.sql \
              "$HERE"/cifrun.cc "$HERE"/json.hh "$HERE"/fault.c 2>/dev/null || true; } | sha256sum | cut -c1-24 )
OUT="$CACHE/$VARIANT-$HASH"
if [ -x "$OUT/cifrun" ]; then touch "$OUT" 2>/dev/null || true; echo "$OUT/cifrun"; exit 0; fi

TMP="$OUT.tmp.$$"
rm -rf "$TMP"; mkdir -p "$TMP"
INC="-I$REPO -I$REPO/src -I$REPO/uthash"
pids=()
for f in $SRCS; do
  $CC $FLAGS $DEFS $INC -w -c "$REPO/src/$f.c" -o "$TMP/$f.o" 2>"$TMP/$f.err" &
  pids+=($!)
done
$CXX -std=c++17 $FLAGS $DEFS $INC -w -c "$HERE/cifrun.cc" -o "$TMP/cifrun.o" 2>"$TMP/cifrun.err" &
pids+=($!)
fail=0
for p in "${pids[@]}"; do wait "$p" || fail=1; done
if [ $fail -ne 0 ]; then cat "$TMP"/*.err >&2; rm -rf "$TMP"; echo "BUILD FAILED" >&2; exit 3; fi
OBJS=""; for f in $SRCS; do OBJS="$OBJS $TMP/$f.o"; done
EXTRA=""
if [ "$VARIANT" = fault ]; then
  $CC $FLAGS -w -c "$HERE/fault.c" -o "$TMP/fault.o" || { rm -rf "$TMP"; exit 3; }
  # only the library's own objects get their allocation calls redirected (the harness keeps the real ones)
  for f in $SRCS; do
    objcopy --redefine-sym malloc=cifv_malloc --redefine-sym calloc=cifv_calloc --redefine-sym realloc=cifv_realloc \
            --redefine-sym strdup=cifv_strdup "$TMP/$f.o" || { rm -rf "$TMP"; exit 3; }
  done
  OBJS="$OBJS $TMP/fault.o"
fi
$CXX $FLAGS $EXTRA -o "$TMP/cifrun" "$TMP/cifrun.o" $OBJS -lsqlite3 -licuio -licui18n -licuuc -licudata -lm 2>"$TMP/link.err" \
  || { cat "$TMP/link.err" >&2; rm -rf "$TMP"; echo "LINK FAILED" >&2; exit 3; }
rm -f "$TMP"/*.err
mv "$TMP" "$OUT" 2>/dev/null || rm -rf "$TMP"
# keep the cache small: the 40 most recent builds
ls -1dt "$CACHE"/*-* 2>/dev/null | tail -n +41 | xargs -r rm -rf
echo "$OUT/cifrun"
