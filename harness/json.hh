// Minimal JSON reader/writer for the cifrun harness.  Strings are UTF-16 code-unit sequences so that
// unpaired surrogates and every UChar value survive a round trip (\uXXXX escapes on both sides).
#pragma once
#include <string>
#include <vector>
#include <utility>
#include <cstdint>
#include <cstdio>
#include <cstring>
#include <cstdlib>

typedef std::u16string ustr;

struct J {
    enum T { NUL, BOOL, NUM, STR, ARR, OBJ } t = NUL;
    bool b = false;
    double d = 0;
    long long i = 0;
    bool isint = false;
    ustr s;
    std::vector<J> a;
    std::vector<std::pair<std::string, J>> o;

    const J *get(const char *k) const {
        if (t != OBJ) return nullptr;
        for (auto &p : o) if (p.first == k) return &p.second;
        return nullptr;
    }
    bool has(const char *k) const { const J *j = get(k); return j && j->t != NUL; }
    long long geti(const char *k, long long dflt = 0) const {
        const J *j = get(k);
        if (!j) return dflt;
        if (j->t == NUM) return j->isint ? j->i : (long long) j->d;
        if (j->t == BOOL) return j->b ? 1 : 0;
        return dflt;
    }
    std::string gets(const char *k, const char *dflt = "") const;  // ASCII-only view
    const ustr *getu(const char *k) const { const J *j = get(k); return (j && j->t == STR) ? &j->s : nullptr; }
};

inline std::string narrow(const ustr &u) {
    std::string r;
    for (char16_t c : u) r.push_back(c < 128 ? (char) c : '?');
    return r;
}
inline std::string J::gets(const char *k, const char *dflt) const {
    const J *j = get(k);
    if (!j || j->t != STR) return dflt;
    return narrow(j->s);
}

struct JParser {
    const char *p, *end;
    bool ok = true;
    explicit JParser(const char *s, size_t n) : p(s), end(s + n) {}
    void ws() { while (p < end && (*p == ' ' || *p == '\t' || *p == '\n' || *p == '\r')) ++p; }
    bool lit(const char *l) { size_t n = strlen(l); if ((size_t)(end - p) >= n && !memcmp(p, l, n)) { p += n; return true; } return false; }
    static int hexv(char c) { if (c >= '0' && c <= '9') return c - '0'; if (c >= 'a' && c <= 'f') return c - 'a' + 10; if (c >= 'A' && c <= 'F') return c - 'A' + 10; return -1; }
    ustr str() {
        ustr r;
        if (p >= end || *p != '"') { ok = false; return r; }
        ++p;
        while (p < end && *p != '"') {
            unsigned char c = (unsigned char) *p;
            if (c == '\\') {
                ++p; if (p >= end) { ok = false; return r; }
                char e = *p++;
                switch (e) {
                    case 'n': r.push_back('\n'); break; case 't': r.push_back('\t'); break;
                    case 'r': r.push_back('\r'); break; case 'b': r.push_back('\b'); break;
                    case 'f': r.push_back('\f'); break; case '/': r.push_back('/'); break;
                    case '\\': r.push_back('\\'); break; case '"': r.push_back('"'); break;
                    case 'u': {
                        if (end - p < 4) { ok = false; return r; }
                        int v = 0;
                        for (int k = 0; k < 4; k++) { int h = hexv(p[k]); if (h < 0) { ok = false; return r; } v = v * 16 + h; }
                        p += 4; r.push_back((char16_t) v); break;
                    }
                    default: ok = false; return r;
                }
            } else if (c < 0x80) { r.push_back(c); ++p; }
            else {  // UTF-8 -> UTF-16
                uint32_t cp; int n;
                if ((c & 0xE0) == 0xC0) { cp = c & 0x1F; n = 1; } else if ((c & 0xF0) == 0xE0) { cp = c & 0x0F; n = 2; }
                else if ((c & 0xF8) == 0xF0) { cp = c & 0x07; n = 3; } else { ok = false; return r; }
                ++p;
                for (int k = 0; k < n; k++) { if (p >= end) { ok = false; return r; } cp = (cp << 6) | ((unsigned char) *p++ & 0x3F); }
                if (cp >= 0x10000) { cp -= 0x10000; r.push_back((char16_t)(0xD800 + (cp >> 10))); r.push_back((char16_t)(0xDC00 + (cp & 0x3FF))); }
                else r.push_back((char16_t) cp);
            }
        }
        if (p >= end) { ok = false; return r; }
        ++p;
        return r;
    }
    J val() {
        J j; ws();
        if (p >= end) { ok = false; return j; }
        char c = *p;
        if (c == '{') {
            j.t = J::OBJ; ++p; ws();
            if (p < end && *p == '}') { ++p; return j; }
            while (ok) {
                ws(); ustr k = str(); ws();
                if (!ok || p >= end || *p != ':') { ok = false; break; }
                ++p;
                J v = val();
                j.o.emplace_back(narrow(k), std::move(v));
                ws();
                if (p < end && *p == ',') { ++p; continue; }
                if (p < end && *p == '}') { ++p; break; }
                ok = false;
            }
        } else if (c == '[') {
            j.t = J::ARR; ++p; ws();
            if (p < end && *p == ']') { ++p; return j; }
            while (ok) {
                j.a.push_back(val()); ws();
                if (p < end && *p == ',') { ++p; continue; }
                if (p < end && *p == ']') { ++p; break; }
                ok = false;
            }
        } else if (c == '"') { j.t = J::STR; j.s = str(); }
        else if (lit("true")) { j.t = J::BOOL; j.b = true; }
        else if (lit("false")) { j.t = J::BOOL; j.b = false; }
        else if (lit("null")) { j.t = J::NUL; }
        else {
            const char *s = p; bool isint = true;
            if (p < end && (*p == '-' || *p == '+')) ++p;
            while (p < end && ((*p >= '0' && *p <= '9') || *p == '.' || *p == 'e' || *p == 'E' || *p == '-' || *p == '+')) {
                if (*p == '.' || *p == 'e' || *p == 'E') isint = false;
                ++p;
            }
            if (p == s) { ok = false; return j; }
            std::string num(s, p - s);
            j.t = J::NUM; j.isint = isint;
            if (isint) { j.i = strtoll(num.c_str(), nullptr, 10); j.d = (double) j.i; }
            else { j.d = strtod(num.c_str(), nullptr); j.i = (long long) j.d; }
        }
        return j;
    }
};

// ---- writer ----
struct W {
    std::string s;
    std::vector<bool> first;
    void sep() { if (!first.empty()) { if (!first.back()) s.push_back(','); first.back() = false; } }
    W &obj() { sep(); s.push_back('{'); first.push_back(true); return *this; }
    W &end_obj() { s.push_back('}'); first.pop_back(); return *this; }
    W &arr() { sep(); s.push_back('['); first.push_back(true); return *this; }
    W &end_arr() { s.push_back(']'); first.pop_back(); return *this; }
    W &key(const char *k) { sep(); s.push_back('"'); s += k; s += "\":"; first.back() = true; return *this; }
    // after key(), the next value must not emit a separator: we set first=true above, value() resets it
    W &raw(const std::string &r) { sep(); s += r; return *this; }
    W &num(long long v) { sep(); s += std::to_string(v); return *this; }
    W &boolean(bool v) { sep(); s += v ? "true" : "false"; return *this; }
    W &null() { sep(); s += "null"; return *this; }
    W &str(const char16_t *u, size_t n) {
        sep(); s.push_back('"');
        char buf[8];
        for (size_t k = 0; k < n; k++) {
            char16_t c = u[k];
            if (c == '"') s += "\\\""; else if (c == '\\') s += "\\\\";
            else if (c >= 0x20 && c < 0x7f) s.push_back((char) c);
            else { snprintf(buf, sizeof buf, "\\u%04x", (unsigned) c); s += buf; }
        }
        s.push_back('"'); return *this;
    }
    W &str(const ustr &u) { return str(u.data(), u.size()); }
    W &cstr(const char *c) { ustr u; for (; *c; ++c) u.push_back((unsigned char) *c); return str(u); }
    W &kv(const char *k, long long v) { key(k); return num(v); }
    W &kvs(const char *k, const char *v) { key(k); return cstr(v); }
    W &kvu(const char *k, const ustr &v) { key(k); return str(v); }
};
