/*
 * Allocation-failure injection for the `fault` variant of cifrun (property C17).
 *
 * harness/build.sh renames the undefined symbols malloc / calloc / realloc / strdup of the LIBRARY's objects (not of
 * the harness) to the cifv_* functions below, so that every allocation the library source requests passes through
 * here.  SQLite's and ICU's allocations are routed here through their documented configuration interfaces
 * (SQLITE_CONFIG_MALLOC, u_setMemoryFunctions).  While armed, requests are counted and the k-th one fails.
 */
#include <stdlib.h>
#include <string.h>
#include <stdio.h>
#include <execinfo.h>
#include <sqlite3.h>
#include <unicode/uclean.h>

static int armed = 0;
static long count = 0, fail_at = 0;
static int fired = 0;
static const char *fired_kind = "";
static char fired_site[256];
static unsigned kinds_mask = 7;   /* 1 = library, 2 = sqlite, 4 = icu */

extern void __sanitizer_symbolize_pc(void *pc, const char *fmt, char *out_buf, size_t out_buf_size) __attribute__((weak));

static void note_site(void) {
    void *bt[48];
    int n = backtrace(bt, 48), i;
    fired_site[0] = '\0';
    if (!__sanitizer_symbolize_pc) return;
    for (i = 2; i < n; i++) {
        char buf[512];
        buf[0] = '\0';
        __sanitizer_symbolize_pc((char *) bt[i] - 1, "%f@%s:%l", buf, sizeof buf);
        /* a frame in the library's sources: .../src/<file>.c or .../src/internal/<file>.h (wherever the tree lives) */
        {
            const char *f = strstr(buf, "/src/");
            if (f != NULL && strstr(f, "/harness/") == NULL && strstr(buf, "/verif/") == NULL
                    && (strchr(f + 5, '/') == NULL || strncmp(f + 5, "internal/", 9) == 0)) {
                const char *at = strchr(buf, '@');
                size_t fl = at ? (size_t) (at - buf) : 0;
                if (fl > 100) fl = 100;
                snprintf(fired_site, sizeof fired_site, "%.*s@%s", (int) fl, buf, f + 5);
                return;
            }
        }
    }
}

static int hit(unsigned kind_bit, const char *kind) {
    if (!armed || !(kinds_mask & kind_bit)) return 0;
    count++;
    if (fail_at > 0 && count == fail_at) {
        fired = 1;
        fired_kind = kind;
        armed = 0;           /* one failure per call: "any single dynamic allocation" */
        note_site();
        armed = 1;
        return 1;
    }
    return 0;
}

void *cifv_malloc(size_t n) { return hit(1, "lib") ? NULL : malloc(n); }
void *cifv_calloc(size_t a, size_t b) { return hit(1, "lib") ? NULL : calloc(a, b); }
void *cifv_realloc(void *p, size_t n) { return hit(1, "lib") ? NULL : realloc(p, n); }
char *cifv_strdup(const char *s) { return hit(1, "lib") ? NULL : strdup(s); }

void cifv_fault_arm(long k, unsigned mask) { count = 0; fail_at = k; fired = 0; fired_kind = ""; fired_site[0] = '\0'; kinds_mask = mask ? mask : 7; armed = 1; }
long cifv_fault_disarm(int *did_fire, const char **kind, const char **site) {
    armed = 0;
    if (did_fire) *did_fire = fired;
    if (kind) *kind = fired_kind;
    if (site) *site = fired_site;
    return count;
}

/* ---- SQLite ---- */
static sqlite3_mem_methods sq_default;
static void *sq_malloc(int n) { return hit(2, "sqlite") ? NULL : sq_default.xMalloc(n); }
static void *sq_realloc(void *p, int n) { return hit(2, "sqlite") ? NULL : sq_default.xRealloc(p, n); }
static void sq_free(void *p) { sq_default.xFree(p); }
static int sq_size(void *p) { return sq_default.xSize(p); }
static int sq_roundup(int n) { return sq_default.xRoundup(n); }
static int sq_init(void *x) { return sq_default.xInit(sq_default.pAppData); }
static void sq_shutdown(void *x) { sq_default.xShutdown(sq_default.pAppData); }

/* ---- ICU ---- */
static void *icu_alloc(const void *ctx, size_t n) { return hit(4, "icu") ? NULL : malloc(n); }
static void *icu_realloc(const void *ctx, void *p, size_t n) { return hit(4, "icu") ? NULL : realloc(p, n); }
static void icu_free(const void *ctx, void *p) { free(p); }

/* returns 0 on success; must run before any SQLite / ICU use */
int cifv_fault_install(void) {
    static sqlite3_mem_methods mine;
    UErrorCode st = U_ZERO_ERROR;
    int rc = 0;
    if (sqlite3_config(SQLITE_CONFIG_GETMALLOC, &sq_default) != SQLITE_OK) rc |= 1;
    mine.xMalloc = sq_malloc; mine.xFree = sq_free; mine.xRealloc = sq_realloc; mine.xSize = sq_size; mine.xRoundup = sq_roundup;
    mine.xInit = sq_init; mine.xShutdown = sq_shutdown; mine.pAppData = NULL;
    if (sqlite3_config(SQLITE_CONFIG_MALLOC, &mine) != SQLITE_OK) rc |= 2;
    u_setMemoryFunctions(NULL, icu_alloc, icu_realloc, icu_free, &st);
    if (U_FAILURE(st)) rc |= 4;
    return rc;
}
