------------------------------- MODULE MCValue -------------------------------
EXTENDS CifValue
MCCanonK(k) == CASE k = "e1" -> "e" [] k = "e2" -> "e" [] OTHER -> k
MCFoldN(n) == CASE n = "_X" -> "_x" [] n = "_Y" -> "_y" [] OTHER -> n
MCClass(t) == CASE t = "" -> "empty" [] t = "?" -> "unk" [] t = "." -> "na" [] t \in {"12", "1.5(2)", "-3e2"} -> "number"
                [] t \in {"data_x", "$v", "loop_", "_n"} -> "reserved" [] t \in {"a b", "a[ b"} -> "space" [] t \in {"a[b", "{}"} -> "bracket"
                [] OTHER -> "plain"
Slots3 == <<"v1", "v2", "v3">>
Slots1 == <<"v1">>
Slots2 == <<"v1", "v2">>
Refs2 == <<"r1", "r2">>
Refs1 == <<"r1">>
=============================================================================
