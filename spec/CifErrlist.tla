----------------------------- MODULE CifErrlist -----------------------------
(***************************************************************************)
(* C20: every result code defined by cif.h has its own, correct message    *)
(* in cif_errlist.  The observation (one ndjson record written by          *)
(* tools/check_errlist.py) holds                                           *)
(*   codes : the #define CIF_<NAME> <n> lines of the return-code group of  *)
(*           cif.h as read at check time (name, number, words of the name) *)
(*   nerr  : cif_nerr                                                      *)
(*   msgs  : cif_errlist[0 .. nerr-1], lower-cased                         *)
(*   slot  : sizeof(cif_errlist[0])                                        *)
(* TLC evaluates the property on the single state of this trace.           *)
(***************************************************************************)
EXTENDS Naturals, Sequences, FiniteSets, TLC, Json, IOUtils

Obs == ndJsonDeserialize(IOEnv.TRACE)[1]
Codes == {Obs.codes[i] : i \in 1..Len(Obs.codes)}

\* What the message of a code has to say: alternatives of word sets; every word of one alternative must occur (as a
\* substring) in the message.  Derived from the documentation of each code in cif.h.
Describes == [
  CIF_OK |-> {{"no", "error"}, {"success"}},
  CIF_FINISHED |-> {{"finished"}, {"complete"}},
  CIF_ERROR |-> {{"error"}},
  CIF_MEMORY_ERROR |-> {{"memory"}, {"allocat"}},
  CIF_INVALID_HANDLE |-> {{"invalid", "handle"}},
  CIF_INTERNAL_ERROR |-> {{"internal"}},
  CIF_ARGUMENT_ERROR |-> {{"argument"}},
  CIF_MISUSE |-> {{"use"}},
  CIF_NOT_SUPPORTED |-> {{"not", "supported"}, {"unsupported"}},
  CIF_ENVIRONMENT_ERROR |-> {{"environment"}},
  CIF_CLIENT_ERROR |-> {{"application"}, {"client"}},
  CIF_DUP_BLOCKCODE |-> {{"duplicate", "block"}},
  CIF_INVALID_BLOCKCODE |-> {{"invalid", "block"}},
  CIF_NOSUCH_BLOCK |-> {{"no", "block"}},
  CIF_DUP_FRAMECODE |-> {{"duplicate", "frame"}},
  CIF_INVALID_FRAMECODE |-> {{"invalid", "frame"}},
  CIF_NOSUCH_FRAME |-> {{"no", "frame"}},
  CIF_CAT_NOT_UNIQUE |-> {{"category", "unique"}},
  CIF_INVALID_CATEGORY |-> {{"category", "invalid"}},
  CIF_NOSUCH_LOOP |-> {{"no", "loop"}},
  CIF_RESERVED_LOOP |-> {{"scalar", "loop"}, {"reserved"}},
  CIF_WRONG_LOOP |-> {{"not", "belong", "loop"}, {"wrong", "loop"}},
  CIF_EMPTY_LOOP |-> {{"loop", "no", "data"}, {"loop", "empty"}, {"loop", "packet"}},
  CIF_NULL_LOOP |-> {{"loop", "no", "name"}},
  CIF_DUP_ITEMNAME |-> {{"duplicate", "item"}, {"duplicate", "name"}},
  CIF_INVALID_ITEMNAME |-> {{"invalid", "item"}, {"invalid", "name"}},
  CIF_NOSUCH_ITEM |-> {{"no", "item"}},
  CIF_AMBIGUOUS_ITEM |-> {{"several"}, {"multiple"}, {"ambiguous"}},
  CIF_INVALID_PACKET |-> {{"packet", "not", "valid"}, {"invalid", "packet"}},
  CIF_PARTIAL_PACKET |-> {{"few", "values"}, {"partial", "packet"}, {"incomplete", "packet"}},
  CIF_DISALLOWED_VALUE |-> {{"value"}},
  CIF_INVALID_NUMBER |-> {{"number"}},
  CIF_INVALID_INDEX |-> {{"index"}},
  CIF_INVALID_BARE_VALUE |-> {{"quoted"}, {"bare"}},
  CIF_INVALID_CHAR |-> {{"invalid", "character"}},
  CIF_UNMAPPED_CHAR |-> {{"unmapp"}},
  CIF_DISALLOWED_CHAR |-> {{"character", "not", "allowed"}, {"disallowed", "character"}},
  CIF_MISSING_SPACE |-> {{"whitespace"}, {"space"}},
  CIF_MISSING_ENDQUOTE |-> {{"quote"}},
  CIF_UNCLOSED_TEXT |-> {{"not", "terminated"}, {"unterminated"}, {"unclosed"}},
  CIF_OVERLENGTH_LINE |-> {{"line", "length"}, {"long", "line"}},
  CIF_DISALLOWED_INITIAL_CHAR |-> {{"first", "character"}, {"initial", "character"}},
  CIF_WRONG_ENCODING |-> {{"encoding"}},
  CIF_NO_BLOCK_HEADER |-> {{"outside", "block"}, {"no", "block", "header"}},
  CIF_FRAME_NOT_ALLOWED |-> {{"save", "frame", "disabled"}, {"frame", "not", "allowed"}},
  CIF_NO_FRAME_TERM |-> {{"frame", "terminator", "missing"}},
  CIF_UNEXPECTED_TERM |-> {{"frame", "terminator", "expected"}},
  CIF_EOF_IN_FRAME |-> {{"end", "input", "frame"}, {"eof", "frame"}},
  CIF_RESERVED_WORD |-> {{"reserved", "word"}},
  CIF_MISSING_VALUE |-> {{"missing", "value"}},
  CIF_UNEXPECTED_VALUE |-> {{"unexpected", "value"}},
  CIF_UNEXPECTED_DELIM |-> {{"misplaced", "delimiter"}, {"unexpected", "delimiter"}},
  CIF_MISSING_DELIM |-> {{"missing", "delimiter"}},
  CIF_MISSING_KEY |-> {{"missing", "key"}},
  CIF_UNQUOTED_KEY |-> {{"unquoted", "key"}},
  CIF_MISQUOTED_KEY |-> {{"text", "key"}, {"misquoted", "key"}},
  CIF_NULL_KEY |-> {{"null", "key"}}
]

\* s occurs in t
Occurs(s, t) == \E i \in 0..(Len(t) - Len(s)) : SubSeq(t, i + 1, i + Len(s)) = s

Msg(n) == Obs.msgs[n + 1]
\* a code cif.h defines but this module does not know yet is required to mention the words of its own name
Required(c) == IF c.name \in DOMAIN Describes THEN Describes[c.name] ELSE {{c.words[i] : i \in 1..Len(c.words)}}

InTable(c) == c.n < Obs.nerr
NonEmpty(c) == InTable(c) => Msg(c.n) # ""
DescribesIt(c) == InTable(c) => \E alt \in Required(c) : \A w \in alt : Occurs(w, Msg(c.n))
\* the message of a code is not (also) the message of another code
Own(c) == \A d \in Codes : (d # c /\ InTable(c) /\ InTable(d) /\ Msg(c.n) # "") => Msg(c.n) # Msg(d.n)

\* ... and it is a string of its own slot: terminated within the slot (the table is char [][slot]; an initialiser of exactly
\* `slot` characters silently drops the terminator and the string runs on into the next message)
Fits(c) == InTable(c) => Len(Msg(c.n)) < Obs.slot

Bad == {c \in Codes : ~(InTable(c) /\ NonEmpty(c) /\ DescribesIt(c) /\ Own(c) /\ Fits(c))}

\* "for any value returned by the library": the values the battery of calls returned (traversals and parses stopped, skipped
\* or failed by their handlers at every position, defective documents under each error policy, failing data-management
\* calls) are result codes cif.h defines -- so each has its entry in the table, checked above
Returned == IF "returned" \in DOMAIN Obs THEN {Obs.returned[i] : i \in 1..Len(Obs.returned)} ELSE {}
Alien == {r \in Returned : ~\E c \in Codes : c.n = r}
ReturnedValuesAreCodes == Alien = {}

VARIABLE done
Init == done = FALSE
Next == done = FALSE /\ done' = TRUE
Spec == Init /\ [][Next]_done

EveryCodeHasItsMessage == Bad = {}
\* printed so that the driver can name the offending codes
Report == PrintT(<<"BAD", ToJson({[name |-> c.name, n |-> c.n] : c \in Bad})>>) /\ PrintT(<<"COUNT", ToJson([codes |-> Cardinality(Codes)])>>) /\ PrintT(<<"ALIEN", ToJson(Alien)>>)
=============================================================================
