------------------------------ MODULE CifQuote ------------------------------
(***************************************************************************)
(* C18: what cif_analyze_string() must report about a string, which        *)
(* delimiters may present it under CIF 2.0 lexical rules (from CifDoc),    *)
(* when a string may stand unquoted, and which strings are reserved.       *)
(* TLC enumerates every string over the alphabet SIGMA up to MaxLen; each  *)
(* is emitted with its statistics and its admissible presentations, and    *)
(* the real functions (and the real parser, for the read-back) are run on  *)
(* it by tools/check_quote.py.                                             *)
(***************************************************************************)
EXTENDS CifDoc

CONSTANTS SIGMA, MaxLen
VARIABLE str

CR == "<CR>"
IsTerm(t, i) == t[i] = EOL \/ t[i] = CR
\* a line terminator ends at position i: LF, or CR not followed by LF
EndsLine(t, i) == t[i] = EOL \/ (t[i] = CR /\ ~(i < Len(t) /\ t[i + 1] = EOL))
TermEnds(t) == {i \in 1..Len(t) : EndsLine(t, i)}
NumLines(t) == 1 + Cardinality(TermEnds(t))
\* the lines (without their terminators)
RECURSIVE QLines(_)
QLines(t) == IF TermEnds(t) = {} THEN <<t>>
             ELSE LET e == CHOOSE j \in TermEnds(t) : \A k \in TermEnds(t) : j <= k
                      s == IF t[e] = EOL /\ e > 1 /\ t[e - 1] = CR THEN e - 2 ELSE e - 1
                  IN <<SubSeq(t, 1, s)>> \o QLines(SubSeq(t, e + 1, Len(t)))
MaxOf(S) == CHOOSE x \in S : \A y \in S : y <= x
LineLens(t) == {Len(QLines(t)[i]) : i \in 1..Len(QLines(t))}
\* longest run of semicolons
SemiRunAt(t, i) == IF t[i] # ";" THEN 0 ELSE
                   LET ends == {j \in i..Len(t) : \A k \in i..j : t[k] = ";"} IN MaxOf(ends) - i + 1
MaxSemiRun(t) == IF t = <<>> THEN 0 ELSE MaxOf({SemiRunAt(t, i) : i \in 1..Len(t)})
HasTextDelim(t) == \E i \in 1..(Len(t) - 1) : EndsLine(t, i) /\ t[i + 1] = ";"
\* in-line whitespace immediately before a line terminator / at the very end
TrailBeforeTerm(t) == \E i \in 2..Len(t) : IsTerm(t, i) /\ t[i - 1] \in WS
TrailAtEnd(t) == t # <<>> /\ t[Len(t)] \in WS

Stats(t) == [len |-> Len(t), lines |-> NumLines(t), first |-> Len(QLines(t)[1]), last |-> Len(QLines(t)[Len(QLines(t))]),
             max |-> MaxOf(LineLens(t)), semis |-> MaxSemiRun(t), textdelim |-> HasTextDelim(t),
             trail |-> TrailBeforeTerm(t) \/ TrailAtEnd(t), trailterm |-> TrailBeforeTerm(t)]

\* CIF 2.0 admissibility of each delimiter (CR counts as a line terminator too); from the rules of CifDoc
NoTerm(t) == ~Has(t, EOL) /\ ~Has(t, CR)
AdmBare(t) == NoTerm(t) /\ BareOK(t, FALSE)
AdmQuoted(t, d) == NoTerm(t) /\ ~Has(t, d)
AdmTriple(t, d) == TripleOK(t, d)
Adm(t) == (IF AdmBare(t) THEN {"bare"} ELSE {}) \cup (IF AdmQuoted(t, "'") THEN {"sq"} ELSE {}) \cup (IF AdmQuoted(t, "\"") THEN {"dq"} ELSE {})
          \cup (IF AdmTriple(t, "'") THEN {"tsq"} ELSE {}) \cup (IF AdmTriple(t, "\"") THEN {"tdq"} ELSE {}) \cup {"text"}
\* reserved strings (cif_is_reserved_string): reserved first character or reserved-word form
Reserved(t) == t # <<>> /\ (t[1] \in {"_", "#", "$", "'", "\""} \/ ReservedWord(t))
\* may stand whitespace-delimited somewhere on a line
Unquotable(t) == AdmBare(t)

\* (the generator variables of CifDoc are not used here and stay constant)
QInit == str = <<>> /\ ctx = "none" /\ slots = <<>> /\ tail = "eof"
QNext == Len(str) < MaxLen /\ (\E c \in SIGMA : str' = Append(str, c)) /\ UNCHANGED <<ctx, slots, tail>>
QSpec == QInit /\ [][QNext]_<<str, ctx, slots, tail>>

\* ---- internal consistency (M1) ----
\* some delimiter is always admissible; bare implies not reserved; a one-line string without quotes is quotable
Consistent == /\ Adm(str) # {}
              /\ ("bare" \in Adm(str) => ~Reserved(str) /\ str # <<>>)
              /\ (NumLines(str) = 1 /\ ~Has(str, "'") => "sq" \in Adm(str))
              /\ Stats(str).max >= Stats(str).first /\ Stats(str).max >= Stats(str).last
              /\ Stats(str).len >= Stats(str).max
              /\ (Stats(str).lines = 1 => Stats(str).first = Stats(str).len)

EmitStr == PrintT(<<"STR", ToJson([s |-> str, st |-> Stats(str), adm |-> Adm(str), res |-> Reserved(str), unq |-> Unquotable(str)])>>)
=============================================================================
