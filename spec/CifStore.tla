------------------------------- MODULE CifStore -------------------------------
(***************************************************************************)
(* The managed-CIF storage layer of cif_api: containers (data blocks and   *)
(* save frames), loops, items, packets, handles and packet iterators.      *)
(* One action per public API call; every action yields the result code     *)
(* and outputs the implementation is expected to produce and records them  *)
(* in the history variable `hist`, from which behaviours are replayed      *)
(* into the real library (see tools/vcheck, harness/cifrun.cc).            *)
(*                                                                         *)
(* The specification is implementation-shaped: it follows the code in      *)
(* src/cif.c, container.c, loop.c, pktitr.c and the SQL schema, including   *)
(* behaviour the header only promises as "best effort" (stale handles).    *)
(* The listed properties (C04 C05 C06) are stated at the end as invariants *)
(* and action properties.                                                  *)
(***************************************************************************)
EXTENDS Naturals, Sequences, FiniteSets, TLC, Json

CONSTANTS CIFS,      \* identifiers of managed CIFs, e.g. {"c1"}
          CODES,     \* spellings used as block / frame codes ("NULL" = null pointer where allowed)
          NAMES,     \* spellings used as data names
          CATS,      \* loop categories; "NULL" = null pointer, "" = the reserved scalar category
          VALS,      \* value tokens; "u" = unknown value (also what a NULL value argument stores)
          PVALS,     \* value tokens used inside packets
          CSLOTS,    \* sequence of container-handle slot names
          LSLOTS,    \* sequence of loop-handle slot names
          MaxId, MaxDepth, MaxNl, MaxLast, MaxNames, MaxPkt, MaxHist, MaxLoopsPerCont,
          SCRIPT,    \* a sequence of (partial) log entries the first Len(SCRIPT) steps must match: populates a start state
          FOREIGN    \* TRUE: while an iterator is open, loop_add_packet / loop_add_item on OTHER loops of the same CIF are enabled

\* spelling semantics, supplied by the model module: normal form and validity
CONSTANTS NormC(_), ValidC(_), NormN(_), ValidN(_)

VARIABLES cifs,    \* set of live CIFs
          cont,    \* set of [cif, id, parent, norm, orig, nl]      (parent = 0: data block)
          loops,   \* set of [cif, cid, num, cat, last, items]      items: set of [norm, orig]
          vals,    \* set of [cif, cid, name, row, v]
          nextId,  \* [CIFS -> Nat]  next container id (ids are never reused while the CIF lives)
          hc,      \* [slot -> NoneH \/ container handle]
          hl,      \* [slot -> NoneH \/ loop handle]
          itr,     \* [CIFS -> NoneH \/ iterator]
          snap,    \* [CIFS -> store snapshot taken when the iterator was opened]
          hist     \* sequence of [op, args..., rc, outputs...]

store == <<cont, loops, vals, nextId>>
vars == <<cifs, cont, loops, vals, nextId, hc, hl, itr, snap, hist>>

\* ---- result codes (cif.h) ----
OK == 0  FINISHED == 1  ERROR == 2  INVALID_HANDLE == 4  INTERNAL_ERROR == 5  ARGUMENT_ERROR == 6  MISUSE == 7
DUP_BLOCKCODE == 11  INVALID_BLOCKCODE == 12  NOSUCH_BLOCK == 13
DUP_FRAMECODE == 21  INVALID_FRAMECODE == 22  NOSUCH_FRAME == 23
CAT_NOT_UNIQUE == 31  INVALID_CATEGORY == 32  NOSUCH_LOOP == 33  RESERVED_LOOP == 34  WRONG_LOOP == 35
EMPTY_LOOP == 36  NULL_LOOP == 37  DUP_ITEMNAME == 41  INVALID_ITEMNAME == 42  NOSUCH_ITEM == 43
AMBIGUOUS_ITEM == 44  INVALID_PACKET == 52

NoneH == [k |-> "none"]
SeqToSet(s) == {s[i] : i \in 1..Len(s)}
Min(S) == CHOOSE x \in S : \A y \in S : x <= y

FreeSlot(slots, h) == LET F == {i \in 1..Len(slots) : h[slots[i]] = NoneH}
                      IN IF F = {} THEN "" ELSE slots[Min(F)]

\* ---- store queries ----
ContsOf(c) == {x \in cont : x.cif = c}
ContExists(c, id) == \E x \in cont : x.cif = c /\ x.id = id
ContOf(c, id) == CHOOSE x \in cont : x.cif = c /\ x.id = id
LoopsOf(c, cid) == {l \in loops : l.cif = c /\ l.cid = cid}
LoopExists(c, cid, num) == \E l \in loops : l.cif = c /\ l.cid = cid /\ l.num = num
LoopOf(c, cid, num) == CHOOSE l \in loops : l.cif = c /\ l.cid = cid /\ l.num = num
Norms(l) == {i.norm : i \in l.items}
ItemLoops(c, cid, n) == {l \in LoopsOf(c, cid) : n \in Norms(l)}
LoopVals(l) == {v \in vals : v.cif = l.cif /\ v.cid = l.cid /\ v.name \in Norms(l)}
Rows(l) == {v.row : v \in LoopVals(l)}
ValAt(c, cid, n, r) == LET S == {v \in vals : v.cif = c /\ v.cid = cid /\ v.name = n /\ v.row = r}
                       IN IF S = {} THEN "u" ELSE (CHOOSE v \in S : TRUE).v
Depth(c, id) == LET RECURSIVE D(_)
                    D(i) == IF i = 0 THEN 0 ELSE IF ~ContExists(c, i) THEN 1 ELSE 1 + D(ContOf(c, i).parent)
                IN D(id)

RECURSIVE Closure(_, _)
Closure(c, S) == LET N == S \cup {x.id : x \in {y \in ContsOf(c) : y.parent \in S}}
                 IN IF N = S THEN S ELSE Closure(c, N)

\* sorted sequence of a finite set of naturals
RECURSIVE SortedSeq(_)
SortedSeq(S) == IF S = {} THEN <<>> ELSE LET m == Min(S) IN <<m>> \o SortedSeq(S \ {m})

\* ---- argument universes ----
ValidNames == {n \in NAMES : ValidN(n)}
NameSeqs == UNION {[1..n -> NAMES] : n \in 0..MaxNames}
DistinctNorm(p) == \A i, j \in 1..Len(p) : i # j => NormN(p[i][1]) # NormN(p[j][1])
Packets == {p \in UNION {[1..n -> ValidNames \X PVALS] : n \in 0..MaxPkt} : DistinctNorm(p)}
PktNorms(p) == {NormN(p[i][1]) : i \in 1..Len(p)}

Busy(c) == itr[c] # NoneH                 \* an iterator is open: access to ITS loop other than through it is undefined
\* cif.h (cif_loop_get_packets): only access to the underlying loop is undefined while an iterator is active; other
\* modifications of the same CIF are defined, what is undefined is whether they survive an abort.  With FOREIGN the
\* two loop-level mutators stay enabled on loops other than the iterated one; a successful one sets itr[c].foreign,
\* after which abort is no longer enabled (its outcome is not specified).  These calls run inside the iterator's
\* transaction: "inside an enclosing transaction" of C05.
OtherLoop(c, cid, num) == FOREIGN /\ Busy(c) /\ ~(itr[c].cid = cid /\ itr[c].num = num)
FreeL(t) == ~Busy(hl[t].cif) \/ OtherLoop(hl[t].cif, hl[t].cid, hl[t].num)
Touch(n, c) == IF n.itr[c] # NoneH THEN [n EXCEPT !.itr[c].foreign = TRUE] ELSE n
HeldC(s) == hc[s] # NoneH /\ hc[s].cif \in cifs
HeldL(s) == hl[s] # NoneH /\ hl[s].cif \in cifs
StaleC(s) == ~ContExists(hc[s].cif, hc[s].id)      \* the container behind the handle is gone
StaleL(t) == ~LoopExists(hl[t].cif, hl[t].cid, hl[t].num)
DropLoopsVia(s) == [t \in DOMAIN hl |-> IF hl[t] # NoneH /\ hl[t].via = s THEN NoneH ELSE hl[t]]

\* Every public call is an operator <Call>R(args) that yields a record
\*    [en |-> is the call within its documented preconditions here, e |-> log entry with rc and outputs, new |-> next state]
\* `Cur` is the current state as a record, so that `new` can be written with EXCEPT.
Cur == [cifs |-> cifs, cont |-> cont, loops |-> loops, vals |-> vals, nextId |-> nextId,
        hc |-> hc, hl |-> hl, itr |-> itr, snap |-> snap]
Off == [en |-> FALSE]
On(e, new) == [en |-> TRUE, e |-> e, new |-> new]
ContHandle(c, id, parent, orig) == [k |-> "cont", cif |-> c, id |-> id, parent |-> parent, orig |-> orig]
LoopHandle(s, c, cid, num, cat) == [k |-> "loop", via |-> s, cif |-> c, cid |-> cid, num |-> num, cat |-> cat]
Put(h, slot, v) == IF slot = "" THEN h ELSE [h EXCEPT ![slot] = v]

-----------------------------------------------------------------------------
Init == /\ cifs = {} /\ cont = {} /\ loops = {} /\ vals = {}
        /\ nextId = [c \in CIFS |-> 1]
        /\ hc = [s \in SeqToSet(CSLOTS) |-> NoneH]
        /\ hl = [s \in SeqToSet(LSLOTS) |-> NoneH]
        /\ itr = [c \in CIFS |-> NoneH]
        /\ snap = [c \in CIFS |-> <<>>]
        /\ hist = <<>>

CreateCifR(c) ==
    IF c \in cifs THEN Off ELSE
    On([op |-> "cif_create", cif |-> c, rc |-> OK], [Cur EXCEPT !.cifs = @ \cup {c}, !.nextId[c] = 1])

DestroyCifR(c) ==
    IF ~(c \in cifs /\ ~Busy(c)) THEN Off ELSE
    On([op |-> "cif_destroy", cif |-> c, rc |-> OK],
       [Cur EXCEPT !.cifs = @ \ {c},
                   !.cont = {x \in cont : x.cif # c}, !.loops = {x \in loops : x.cif # c}, !.vals = {x \in vals : x.cif # c},
                   !.hc = [s \in DOMAIN hc |-> IF hc[s] # NoneH /\ hc[s].cif = c THEN NoneH ELSE hc[s]],
                   !.hl = [s \in DOMAIN hl |-> IF hl[s] # NoneH /\ hl[s].cif = c THEN NoneH ELSE hl[s]]])

CreateBlockR(c, code) ==
    IF ~(c \in cifs /\ ~Busy(c)) THEN Off ELSE
    LET slot == FreeSlot(CSLOTS, hc)
        rc == IF code = "NULL" THEN ARGUMENT_ERROR
              ELSE IF ~ValidC(code) THEN INVALID_BLOCKCODE
              ELSE IF \E x \in ContsOf(c) : x.parent = 0 /\ x.norm = NormC(code) THEN DUP_BLOCKCODE
              ELSE OK
        id == nextId[c]
    IN IF rc = OK /\ id > MaxId THEN Off ELSE
       On([op |-> "create_block", cif |-> c, code |-> code, h |-> slot, rc |-> rc],
          IF rc = OK
          THEN [Cur EXCEPT !.cont = @ \cup {[cif |-> c, id |-> id, parent |-> 0, norm |-> NormC(code), orig |-> code, nl |-> 0]},
                           !.nextId[c] = id + 1,
                           !.hc = Put(@, slot, ContHandle(c, id, 0, code))]
          ELSE Cur)

GetBlockR(c, code) ==
    IF ~(c \in cifs /\ ~Busy(c) /\ code # "NULL") THEN Off ELSE
    LET slot == FreeSlot(CSLOTS, hc)
        M == {x \in ContsOf(c) : x.parent = 0 /\ x.norm = NormC(code)}
        rc == IF M = {} THEN NOSUCH_BLOCK ELSE OK
    IN On([op |-> "get_block", cif |-> c, code |-> code, h |-> slot, rc |-> rc],
          IF rc = OK THEN LET x == CHOOSE y \in M : TRUE IN [Cur EXCEPT !.hc = Put(@, slot, ContHandle(c, x.id, 0, x.orig))]
          ELSE Cur)

GetAllBlocksR(c) ==
    IF ~(c \in cifs /\ ~Busy(c)) THEN Off ELSE
    On([op |-> "get_all_blocks", cif |-> c, rc |-> OK, codes |-> {x.orig : x \in {y \in ContsOf(c) : y.parent = 0}}], Cur)

CreateFrameR(s, code) ==
    IF ~(HeldC(s) /\ ~Busy(hc[s].cif) /\ code # "NULL") THEN Off ELSE
    LET h == hc[s]  c == h.cif
        slot == FreeSlot(CSLOTS, hc)
        rc == IF ~ValidC(code) THEN INVALID_FRAMECODE
              ELSE IF ~ContExists(c, h.id) THEN DUP_FRAMECODE      \* foreign key failure is reported like a duplicate
              ELSE IF \E x \in ContsOf(c) : x.parent = h.id /\ x.norm = NormC(code) THEN DUP_FRAMECODE
              ELSE OK
        id == nextId[c]
    IN IF rc = OK /\ (id > MaxId \/ Depth(c, h.id) >= MaxDepth) THEN Off ELSE
       On([op |-> "create_frame", cont |-> s, stale |-> StaleC(s), code |-> code, h |-> slot, rc |-> rc, cif |-> c],
          IF rc = OK
          THEN [Cur EXCEPT !.cont = @ \cup {[cif |-> c, id |-> id, parent |-> h.id, norm |-> NormC(code), orig |-> code, nl |-> 0]},
                           !.nextId[c] = id + 1,
                           !.hc = Put(@, slot, ContHandle(c, id, h.id, code))]
          ELSE Cur)

GetFrameR(s, code) ==
    IF ~(HeldC(s) /\ ~Busy(hc[s].cif) /\ code # "NULL") THEN Off ELSE
    LET h == hc[s]  c == h.cif
        slot == FreeSlot(CSLOTS, hc)
        M == {x \in ContsOf(c) : x.parent = h.id /\ x.norm = NormC(code)}
        rc == IF ~ValidC(code) THEN INVALID_FRAMECODE ELSE IF M = {} THEN NOSUCH_FRAME ELSE OK
    IN On([op |-> "get_frame", cont |-> s, stale |-> StaleC(s), code |-> code, h |-> slot, rc |-> rc, cif |-> c],
          IF rc = OK THEN LET x == CHOOSE y \in M : TRUE IN [Cur EXCEPT !.hc = Put(@, slot, ContHandle(c, x.id, h.id, x.orig))]
          ELSE Cur)

GetAllFramesR(s) ==
    IF ~(HeldC(s) /\ ~Busy(hc[s].cif)) THEN Off ELSE
    LET h == hc[s] IN
    On([op |-> "get_all_frames", cont |-> s, stale |-> StaleC(s), rc |-> OK, cif |-> h.cif,
        codes |-> {x.orig : x \in {y \in ContsOf(h.cif) : y.parent = h.id}}], Cur)

GetCodeR(s) ==
    IF ~(HeldC(s) /\ ~Busy(hc[s].cif)) THEN Off ELSE
    On([op |-> "get_code", cont |-> s, stale |-> StaleC(s), rc |-> OK, code |-> hc[s].orig, cif |-> hc[s].cif], Cur)

AssertBlockR(s) ==
    IF ~(HeldC(s) /\ ~Busy(hc[s].cif)) THEN Off ELSE
    On([op |-> "assert_block", cont |-> s, stale |-> StaleC(s), rc |-> IF hc[s].parent = 0 THEN OK ELSE ARGUMENT_ERROR, cif |-> hc[s].cif], Cur)

FreeContainerR(s) ==
    IF ~(HeldC(s) /\ ~Busy(hc[s].cif)) THEN Off ELSE
    On([op |-> "container_free", cont |-> s, stale |-> StaleC(s), cif |-> hc[s].cif],
       [Cur EXCEPT !.hc[s] = NoneH, !.hl = DropLoopsVia(s)])

DestroyContainerR(s) ==
    IF ~(HeldC(s) /\ ~Busy(hc[s].cif)) THEN Off ELSE
    LET h == hc[s]  c == h.cif
        ex == ContExists(c, h.id)
        ids == Closure(c, {h.id})
    IN On([op |-> "container_destroy", cont |-> s, stale |-> StaleC(s), rc |-> IF ex THEN OK ELSE INVALID_HANDLE, cif |-> c],
          [Cur EXCEPT !.cont = IF ex THEN {x \in cont : ~(x.cif = c /\ x.id \in ids)} ELSE cont,
                      !.loops = IF ex THEN {x \in loops : ~(x.cif = c /\ x.cid \in ids)} ELSE loops,
                      !.vals = IF ex THEN {x \in vals : ~(x.cif = c /\ x.cid \in ids)} ELSE vals,
                      !.hc[s] = NoneH,                 \* the handle is released in both cases
                      !.hl = DropLoopsVia(s)])

\* TRUE iff enrolling the names one by one hits the primary key (container, normalised name)
FirstDup(c, cid, names) ==
    \/ \E i \in 1..Len(names) : ItemLoops(c, cid, NormN(names[i])) # {}
    \/ \E i, j \in 1..Len(names) : i # j /\ NormN(names[i]) = NormN(names[j])

CreateLoopR(s, cat, names) ==
    IF ~(HeldC(s) /\ ~Busy(hc[s].cif)) THEN Off ELSE
    LET h == hc[s]  c == h.cif  cid == h.id
        slot == FreeSlot(LSLOTS, hl)
        rc == IF Len(names) = 0 THEN NULL_LOOP
              ELSE IF \E i \in 1..Len(names) : ~ValidN(names[i]) THEN INVALID_ITEMNAME
              ELSE IF ~ContExists(c, cid) THEN INVALID_HANDLE
              ELSE IF cat = "" /\ \E l \in LoopsOf(c, cid) : l.cat = "" THEN RESERVED_LOOP
              ELSE IF FirstDup(c, cid, names) THEN DUP_ITEMNAME
              ELSE OK
    IN IF rc = OK /\ (Cardinality(LoopsOf(c, cid)) >= MaxLoopsPerCont \/ ContOf(c, cid).nl >= MaxNl) THEN Off ELSE
       On([op |-> "create_loop", cont |-> s, stale |-> StaleC(s), category |-> cat, names |-> names, h |-> slot, rc |-> rc, cif |-> c],
          IF rc = OK
          THEN LET x == ContOf(c, cid)
                   l == [cif |-> c, cid |-> cid, num |-> x.nl, cat |-> cat, last |-> 0,
                         items |-> {[norm |-> NormN(names[i]), orig |-> names[i]] : i \in 1..Len(names)}]
               IN [Cur EXCEPT !.loops = @ \cup {l},
                              !.cont = (@ \ {x}) \cup {[x EXCEPT !.nl = @ + 1]},
                              !.hl = Put(@, slot, LoopHandle(s, c, cid, x.nl, cat))]
          ELSE Cur)

GetCategoryLoopR(s, cat) ==
    IF ~(HeldC(s) /\ ~Busy(hc[s].cif)) THEN Off ELSE
    LET h == hc[s]  c == h.cif
        slot == FreeSlot(LSLOTS, hl)
        M == {l \in LoopsOf(c, h.id) : l.cat = cat}
        rc == IF cat = "NULL" THEN INVALID_CATEGORY
              ELSE IF M = {} THEN NOSUCH_LOOP ELSE IF Cardinality(M) > 1 THEN CAT_NOT_UNIQUE ELSE OK
    IN On([op |-> "get_category_loop", cont |-> s, stale |-> StaleC(s), category |-> cat, h |-> slot, rc |-> rc, cif |-> c],
          IF rc = OK THEN LET l == CHOOSE y \in M : TRUE IN [Cur EXCEPT !.hl = Put(@, slot, LoopHandle(s, c, h.id, l.num, l.cat))]
          ELSE Cur)

GetItemLoopR(s, name) ==
    IF ~(HeldC(s) /\ ~Busy(hc[s].cif)) THEN Off ELSE
    LET h == hc[s]  c == h.cif
        slot == FreeSlot(LSLOTS, hl)
        M == IF ValidN(name) THEN ItemLoops(c, h.id, NormN(name)) ELSE {}
        rc == IF M = {} THEN NOSUCH_ITEM ELSE OK
    IN On([op |-> "get_item_loop", cont |-> s, stale |-> StaleC(s), name |-> name, h |-> slot, rc |-> rc, cif |-> c,
           cat |-> IF rc = OK THEN (CHOOSE y \in M : TRUE).cat ELSE "-"],
          IF rc = OK THEN LET l == CHOOSE y \in M : TRUE IN [Cur EXCEPT !.hl = Put(@, slot, LoopHandle(s, c, h.id, l.num, l.cat))]
          ELSE Cur)

GetAllLoopsR(s) ==
    IF ~(HeldC(s) /\ ~Busy(hc[s].cif)) THEN Off ELSE
    LET h == hc[s]  c == h.cif
        ex == ContExists(c, h.id)
    IN On([op |-> "get_all_loops", cont |-> s, stale |-> StaleC(s), rc |-> IF ex THEN OK ELSE INVALID_HANDLE, cif |-> c,
           loops |-> IF ex THEN {[cat |-> l.cat, names |-> {i.orig : i \in l.items}] : l \in LoopsOf(c, h.id)} ELSE {}], Cur)

PruneR(s) ==
    IF ~(HeldC(s) /\ ~Busy(hc[s].cif)) THEN Off ELSE
    LET h == hc[s]  c == h.cif
        dead == {l \in LoopsOf(c, h.id) : Rows(l) = {}}
    IN On([op |-> "prune", cont |-> s, stale |-> StaleC(s), rc |-> OK, cif |-> c], [Cur EXCEPT !.loops = @ \ dead])

GetValueR(s, name) ==
    IF ~(HeldC(s) /\ ~Busy(hc[s].cif)) THEN Off ELSE
    LET h == hc[s]  c == h.cif
        V == IF ValidN(name) THEN {v \in vals : v.cif = c /\ v.cid = h.id /\ v.name = NormN(name)} ELSE {}
        rc == IF V = {} THEN NOSUCH_ITEM ELSE IF Cardinality(V) > 1 THEN AMBIGUOUS_ITEM ELSE OK
    IN On([op |-> "get_value", cont |-> s, stale |-> StaleC(s), name |-> name, rc |-> rc, cif |-> c,
           v |-> IF V = {} THEN "-" ELSE ValAt(c, h.id, NormN(name), Min({v.row : v \in V})),
           anyof |-> {v.v : v \in V}], Cur)

\* set (name) := v in every existing packet of loop l
SetAll(l, n, v) == LET R == Rows(l)
                   IN {x \in vals : ~(x.cif = l.cif /\ x.cid = l.cid /\ x.name = n)}
                        \cup {[cif |-> l.cif, cid |-> l.cid, name |-> n, row |-> r, v |-> v] : r \in R}

SetValueR(s, name, v) ==
    IF ~(HeldC(s) /\ ~Busy(hc[s].cif)) THEN Off ELSE
    LET h == hc[s]  c == h.cif  cid == h.id
        n == NormN(name)
        IL == ItemLoops(c, cid, n)
        SL == {l \in LoopsOf(c, cid) : l.cat = ""}
        \* a scalar loop whose only packet lost all its values keeps its row counter: the packet for the new scalar is refused
        stuck == IL = {} /\ SL # {} /\ LET sl == CHOOSE l \in SL : TRUE IN Rows(sl) = {} /\ sl.last >= 1
        rc == IF ~ValidN(name) THEN INVALID_ITEMNAME
              ELSE IF IL # {} THEN OK
              ELSE IF ~ContExists(c, cid) THEN INVALID_HANDLE
              ELSE IF stuck THEN RESERVED_LOOP
              ELSE OK
        e0 == [op |-> "set_value", cont |-> s, stale |-> StaleC(s), name |-> name, v |-> v, rc |-> rc, cif |-> c]
        \* the refusal in the `stuck` situation is what the library does, not what the data model prescribes (a scalar loop
        \* without a packet should accept a scalar): the entry says so, and C04 reports it (known finding)
        e == IF rc = RESERVED_LOOP THEN [e0 EXCEPT !.rc = rc] @@ [stuck |-> 1] ELSE e0
    IN IF rc # OK THEN On(e, Cur)
       ELSE IF IL # {} THEN On(e, [Cur EXCEPT !.vals = SetAll(CHOOSE l \in IL : TRUE, n, v)])
       ELSE IF SL = {} /\ (Cardinality(LoopsOf(c, cid)) >= MaxLoopsPerCont \/ ContOf(c, cid).nl >= MaxNl) THEN Off
       ELSE \* add a scalar: create the scalar loop when there is none, add the item, add the single packet if the loop had none
            LET x == ContOf(c, cid)
                old == IF SL = {} THEN [cif |-> c, cid |-> cid, num |-> x.nl, cat |-> "", last |-> 0, items |-> {}]
                       ELSE CHOOSE l \in SL : TRUE
                hadrows == Rows(old) # {}
                new == [old EXCEPT !.items = @ \cup {[norm |-> n, orig |-> name]},
                                   !.last = IF hadrows THEN @ ELSE @ + 1]
            IN On(e, [Cur EXCEPT !.loops = (@ \ SL) \cup {new},
                                 !.cont = IF SL = {} THEN (@ \ {x}) \cup {[x EXCEPT !.nl = @ + 1]} ELSE @,
                                 !.vals = IF hadrows THEN SetAll(new, n, v)
                                          ELSE @ \cup {[cif |-> c, cid |-> cid, name |-> n, row |-> new.last, v |-> v]}])

RemoveItemR(s, name) ==
    IF ~(HeldC(s) /\ ~Busy(hc[s].cif)) THEN Off ELSE
    LET h == hc[s]  c == h.cif  cid == h.id
        n == NormN(name)
        IL == IF ValidN(name) THEN ItemLoops(c, cid, n) ELSE {}
        rc == IF IL = {} THEN NOSUCH_ITEM ELSE OK
    IN On([op |-> "remove_item", cont |-> s, stale |-> StaleC(s), name |-> name, rc |-> rc, cif |-> c],
          IF rc = OK
          THEN LET l == CHOOSE y \in IL : TRUE
               IN [Cur EXCEPT !.loops = IF Cardinality(l.items) = 1 THEN @ \ {l}
                                        ELSE (@ \ {l}) \cup {[l EXCEPT !.items = {i \in @ : i.norm # n}]},
                              !.vals = {x \in @ : ~(x.cif = c /\ x.cid = cid /\ x.name = n)}]
          ELSE Cur)

\* ---- loop-handle calls ----
FreeLoopR(t) ==
    IF ~(HeldL(t) /\ ~Busy(hl[t].cif)) THEN Off ELSE
    On([op |-> "loop_free", loop |-> t, stale |-> StaleL(t), cif |-> hl[t].cif], [Cur EXCEPT !.hl[t] = NoneH])

LoopDestroyR(t) ==
    IF ~(HeldL(t) /\ ~Busy(hl[t].cif)) THEN Off ELSE
    LET h == hl[t]  ex == LoopExists(h.cif, h.cid, h.num)
    IN On([op |-> "loop_destroy", loop |-> t, stale |-> StaleL(t), rc |-> IF ex THEN OK ELSE INVALID_HANDLE, cif |-> h.cif],
          IF ex THEN LET l == LoopOf(h.cif, h.cid, h.num)
                     IN [Cur EXCEPT !.loops = @ \ {l}, !.vals = @ \ LoopVals(l), !.hl[t] = NoneH]
          ELSE Cur)

LoopGetCategoryR(t) ==
    IF ~(HeldL(t) /\ ~Busy(hl[t].cif)) THEN Off ELSE
    On([op |-> "loop_get_category", loop |-> t, stale |-> StaleL(t), rc |-> OK, cat |-> hl[t].cat, cif |-> hl[t].cif], Cur)

LoopSetCategoryR(t, cat) ==
    IF ~(HeldL(t) /\ ~Busy(hl[t].cif)) THEN Off ELSE
    LET h == hl[t]  ex == LoopExists(h.cif, h.cid, h.num)
        rc == IF cat = "" \/ h.cat = "" THEN RESERVED_LOOP ELSE IF ~ex THEN INVALID_HANDLE ELSE OK
    IN On([op |-> "loop_set_category", loop |-> t, stale |-> StaleL(t), category |-> cat, rc |-> rc, cif |-> h.cif],
          [Cur EXCEPT !.loops = IF rc = OK THEN LET l == LoopOf(h.cif, h.cid, h.num) IN (@ \ {l}) \cup {[l EXCEPT !.cat = cat]} ELSE @,
                      \* the handle caches the category, also when the loop turns out to be gone
                      !.hl = IF rc # RESERVED_LOOP THEN [@ EXCEPT ![t].cat = cat] ELSE @])

LoopGetNamesR(t) ==
    IF ~(HeldL(t) /\ ~Busy(hl[t].cif)) THEN Off ELSE
    LET h == hl[t]  ex == LoopExists(h.cif, h.cid, h.num)
    IN On([op |-> "loop_get_names", loop |-> t, stale |-> StaleL(t), rc |-> IF ex THEN OK ELSE INVALID_HANDLE, cif |-> h.cif,
           names |-> IF ex THEN {i.orig : i \in LoopOf(h.cif, h.cid, h.num).items} ELSE {}], Cur)

LoopAddItemR(t, name, v) ==
    IF ~(HeldL(t) /\ FreeL(t)) THEN Off ELSE
    LET h == hl[t]  c == h.cif
        ex == LoopExists(c, h.cid, h.num)
        n == NormN(name)
        rc == IF ~ValidN(name) THEN INVALID_ITEMNAME
              ELSE IF ~ex THEN DUP_ITEMNAME                 \* foreign key failure is reported like a duplicate
              ELSE IF ItemLoops(c, h.cid, n) # {} THEN DUP_ITEMNAME
              ELSE OK
    IN On([op |-> "loop_add_item", loop |-> t, stale |-> StaleL(t), name |-> name, v |-> v, rc |-> rc, cif |-> c],
          IF rc = OK
          THEN LET l == LoopOf(c, h.cid, h.num)
                   new == [l EXCEPT !.items = @ \cup {[norm |-> n, orig |-> name]}]
               IN Touch([Cur EXCEPT !.loops = (@ \ {l}) \cup {new}, !.vals = SetAll(new, n, v)], c)
          ELSE Cur)

LoopAddPacketR(t, p) ==
    IF ~(HeldL(t) /\ FreeL(t)) THEN Off ELSE
    LET h == hl[t]  c == h.cif
        ex == LoopExists(c, h.cid, h.num)
        l == LoopOf(c, h.cid, h.num)
        rc == IF Len(p) = 0 THEN INVALID_PACKET
              ELSE IF ~ex THEN INTERNAL_ERROR                \* no row number can be obtained for a vanished loop
              ELSE IF l.cat = "" /\ l.last >= 1 THEN RESERVED_LOOP
              ELSE IF ~(PktNorms(p) \subseteq Norms(l)) THEN WRONG_LOOP
              ELSE OK
    IN IF rc = OK /\ l.last >= MaxLast THEN Off ELSE
       On([op |-> "loop_add_packet", loop |-> t, stale |-> StaleL(t), packet |-> p, rc |-> rc, cif |-> c],
          IF rc = OK
          THEN Touch([Cur EXCEPT !.loops = (@ \ {l}) \cup {[l EXCEPT !.last = @ + 1]},
                           !.vals = @ \cup {[cif |-> c, cid |-> h.cid, name |-> NormN(p[i][1]), row |-> l.last + 1, v |-> p[i][2]]
                                             : i \in 1..Len(p)}], c)
          ELSE Cur)

\* ---- packet iterators (C06) ----
\* Only one iterator per managed CIF: while one is open, a further request is refused with CIF_ERROR and - like every
\* refused call - changes nothing; in particular it leaves the open iterator and what was done through it alone.
GetPacketsR(t) ==
    IF ~HeldL(t) THEN Off ELSE
    IF Busy(hl[t].cif) THEN
        On([op |-> "get_packets", loop |-> t, stale |-> StaleL(t), itr |-> "second", cif |-> hl[t].cif,
            rc |-> IF LoopExists(hl[t].cif, hl[t].cid, hl[t].num) THEN ERROR ELSE INVALID_HANDLE], Cur)
    ELSE
    LET h == hl[t]  c == h.cif
        ex == LoopExists(c, h.cid, h.num)
        l == LoopOf(c, h.cid, h.num)
        rc == IF ~ex THEN INVALID_HANDLE ELSE IF Rows(l) = {} THEN EMPTY_LOOP ELSE OK
    IN On([op |-> "get_packets", loop |-> t, stale |-> StaleL(t), itr |-> c, rc |-> rc, cif |-> c],
          IF rc = OK
          THEN [Cur EXCEPT !.itr[c] = [k |-> "itr", lslot |-> t, cid |-> h.cid, num |-> h.num, scalar |-> (h.cat = ""),
                                       names |-> Norms(l), all |-> Rows(l), pending |-> SortedSeq(Rows(l)),
                                       deliv |-> <<>>, cur |-> 0, fin |-> FALSE, done |-> FALSE, foreign |-> FALSE],
                           !.snap[c] = <<ContsOf(c), {x \in loops : x.cif = c}, {x \in vals : x.cif = c}>>]
          ELSE Cur)

ItrNextR(c) ==
    IF ~(c \in cifs /\ Busy(c)) THEN Off ELSE
    LET it == itr[c]
    \* the first CIF_FINISHED is a step of its own (`done`), so that what follows it - update / remove of the packet
    \* delivered last, which still exists - is explored like any other sequence
    IN IF it.fin THEN On([op |-> "itr_next", itr |-> c, rc |-> FINISHED, cif |-> c], [Cur EXCEPT !.itr[c].done = TRUE])
       ELSE LET r == Head(it.pending)
            IN On([op |-> "itr_next", itr |-> c, rc |-> OK, cif |-> c, row |-> r,
                   pkt |-> [n \in it.names |-> ValAt(c, it.cid, n, r)]],
                  [Cur EXCEPT !.itr[c] = [it EXCEPT !.pending = Tail(@), !.cur = r, !.deliv = Append(@, r),
                                                    !.fin = (Len(it.pending) = 1)]])

ItrUpdateR(c, p) ==
    IF ~(c \in cifs /\ Busy(c)) THEN Off ELSE
    LET it == itr[c]
        rc == IF it.cur <= 0 THEN MISUSE ELSE IF ~(PktNorms(p) \subseteq it.names) THEN WRONG_LOOP ELSE OK
    IN On([op |-> "itr_update", itr |-> c, packet |-> p, rc |-> rc, cif |-> c],
          IF rc = OK
          THEN [Cur EXCEPT !.vals = {x \in @ : ~(x.cif = c /\ x.cid = it.cid /\ x.row = it.cur /\ x.name \in PktNorms(p))}
                                      \cup {[cif |-> c, cid |-> it.cid, name |-> NormN(p[i][1]), row |-> it.cur, v |-> p[i][2]]
                                            : i \in 1..Len(p)}]
          ELSE Cur)

ItrRemoveR(c) ==
    IF ~(c \in cifs /\ Busy(c)) THEN Off ELSE
    LET it == itr[c]
        rc == IF it.cur <= 0 THEN MISUSE ELSE OK
    IN On([op |-> "itr_remove", itr |-> c, rc |-> rc, cif |-> c],
          IF rc = OK
          THEN [Cur EXCEPT !.vals = {x \in @ : ~(x.cif = c /\ x.cid = it.cid /\ x.row = it.cur /\ x.name \in it.names)},
                           !.loops = IF it.scalar /\ LoopExists(c, it.cid, it.num)
                                     THEN LET l == LoopOf(c, it.cid, it.num) IN (@ \ {l}) \cup {[l EXCEPT !.last = 0]}
                                     ELSE @,
                           !.itr[c].cur = 0]
          ELSE Cur)

ItrCloseR(c) ==
    IF ~(c \in cifs /\ Busy(c)) THEN Off ELSE
    On([op |-> "itr_close", itr |-> c, rc |-> OK, cif |-> c], [Cur EXCEPT !.itr[c] = NoneH, !.snap[c] = <<>>])

ItrAbortR(c) ==
    IF ~(c \in cifs /\ Busy(c) /\ ~itr[c].foreign) THEN Off ELSE
    On([op |-> "itr_abort", itr |-> c, rc |-> OK, cif |-> c],
       [Cur EXCEPT !.cont = {x \in @ : x.cif # c} \cup snap[c][1],
                   !.loops = {x \in @ : x.cif # c} \cup snap[c][2],
                   !.vals = {x \in @ : x.cif # c} \cup snap[c][3],
                   !.itr[c] = NoneH, !.snap[c] = <<>>])

-----------------------------------------------------------------------------
(***************************************************************************)
(* cif_parse INTO an existing managed CIF, interleaved with API calls      *)
(* (C04: "interleaved with parsing into them").  DOCS maps a document id   *)
(* to a sequence of blocks [code, items], items a sequence of <<name,      *)
(* value token>> scalars; the driver renders it as                         *)
(*     data_<code>  _name value ...                                        *)
(* The error callback accepts everything, so the documented recoveries of  *)
(* parser.c apply (reopen the block on CIF_DUP_BLOCKCODE; parse and drop   *)
(* the item on CIF_DUP_ITEMNAME), each scalar is stored with the semantics *)
(* of cif_container_set_value on a new name, and the container is pruned   *)
(* when it ends (parse_container).  The operators below take the state as  *)
(* a record so that the blocks and items can be folded over.               *)
(***************************************************************************)
CONSTANT DOCS
P_ContsOf(st, c) == {x \in st.cont : x.cif = c}
P_LoopsOf(st, c, cid) == {l \in st.loops : l.cif = c /\ l.cid = cid}
P_Rows(st, l) == {v.row : v \in {w \in st.vals : w.cif = l.cif /\ w.cid = l.cid /\ w.name \in Norms(l)}}
\* one scalar item: returns [st, errs]
P_Item(acc, c, cid, it) ==
    LET st == acc.st  name == it[1]  v == it[2]  n == NormN(name)
        x == CHOOSE y \in P_ContsOf(st, c) : y.id = cid
        IL == {l \in P_LoopsOf(st, c, cid) : n \in Norms(l)}
        SL == {l \in P_LoopsOf(st, c, cid) : l.cat = ""}
    IN IF IL # {} THEN [st |-> st, errs |-> Append(acc.errs, DUP_ITEMNAME)]
       ELSE LET old == IF SL = {} THEN [cif |-> c, cid |-> cid, num |-> x.nl, cat |-> "", last |-> 0, items |-> {}]
                       ELSE CHOOSE l \in SL : TRUE
                hadrows == P_Rows(st, old) # {}
                new == [old EXCEPT !.items = @ \cup {[norm |-> n, orig |-> name]}, !.last = IF hadrows THEN @ ELSE @ + 1]
                rows == P_Rows(st, old)
            IN [st |-> [st EXCEPT !.loops = (@ \ SL) \cup {new},
                                  !.cont = IF SL = {} THEN (@ \ {x}) \cup {[x EXCEPT !.nl = @ + 1]} ELSE @,
                                  !.vals = IF hadrows THEN @ \cup {[cif |-> c, cid |-> cid, name |-> n, row |-> r, v |-> v] : r \in rows}
                                           ELSE @ \cup {[cif |-> c, cid |-> cid, name |-> n, row |-> new.last, v |-> v]}],
                errs |-> acc.errs]
RECURSIVE P_Items(_, _, _, _)
P_Items(acc, c, cid, items) == IF items = <<>> THEN acc ELSE P_Items(P_Item(acc, c, cid, Head(items)), c, cid, Tail(items))
\* a loop_ construct [names, rows]: names already present in the container are reported (CIF_DUP_ITEMNAME) and their
\* column is parsed and dropped; the loop is created (category NULL) with the remaining names and one packet per row.
\* (Names repeated inside one header are the subject of an open finding and do not occur in DOCS.)
P_Loop(acc, c, cid, lp) ==
    LET st == acc.st
        x == CHOOSE y \in P_ContsOf(st, c) : y.id = cid
        taken(n) == \E l \in P_LoopsOf(st, c, cid) : NormN(n) \in Norms(l)
        keep == {i \in 1..Len(lp.names) : ~taken(lp.names[i])}
        ndup == Len(lp.names) - Cardinality(keep)
        errs == acc.errs \o [k \in 1..ndup |-> DUP_ITEMNAME]
        l == [cif |-> c, cid |-> cid, num |-> x.nl, cat |-> "NULL", last |-> Len(lp.rows),
              items |-> {[norm |-> NormN(lp.names[i]), orig |-> lp.names[i]] : i \in keep}]
    IN IF keep = {} THEN [st |-> st, errs |-> errs]
       ELSE [st |-> [st EXCEPT !.loops = @ \cup {l},
                               !.cont = (@ \ {x}) \cup {[x EXCEPT !.nl = @ + 1]},
                               !.vals = @ \cup {[cif |-> c, cid |-> cid, name |-> NormN(lp.names[i]), row |-> r, v |-> lp.rows[r][i]]
                                                 : i \in keep, r \in 1..Len(lp.rows)}],
             errs |-> errs]
\* one save frame [code, items] of container pid: create or reopen (CIF_DUP_FRAMECODE), store the items, prune the frame
P_Frame(acc, c, pid, f) ==
    LET st == acc.st
        M == {x \in P_ContsOf(st, c) : x.parent = pid /\ x.norm = NormC(f.code)}
        id == IF M = {} THEN st.nextId[c] ELSE (CHOOSE x \in M : TRUE).id
        st1 == IF M = {} THEN [st EXCEPT !.cont = @ \cup {[cif |-> c, id |-> id, parent |-> pid, norm |-> NormC(f.code), orig |-> f.code, nl |-> 0]},
                                          !.nextId[c] = id + 1]
               ELSE st
        a0 == P_Items([st |-> st1, errs |-> IF M = {} THEN acc.errs ELSE Append(acc.errs, DUP_FRAMECODE)], c, id, f.items)
        dead == {l \in P_LoopsOf(a0.st, c, id) : P_Rows(a0.st, l) = {}}
    IN [st |-> [a0.st EXCEPT !.loops = @ \ dead], errs |-> a0.errs]
RECURSIVE P_Frames(_, _, _, _)
P_Frames(acc, c, pid, fs) == IF fs = <<>> THEN acc ELSE P_Frames(P_Frame(acc, c, pid, Head(fs)), c, pid, Tail(fs))
\* one block: create or reopen, store the items, then the loop, then the save frames, prune the container
P_Block(acc, c, b) ==
    LET st == acc.st
        M == {x \in P_ContsOf(st, c) : x.parent = 0 /\ x.norm = NormC(b.code)}
        id == IF M = {} THEN st.nextId[c] ELSE (CHOOSE x \in M : TRUE).id
        st1 == IF M = {} THEN [st EXCEPT !.cont = @ \cup {[cif |-> c, id |-> id, parent |-> 0, norm |-> NormC(b.code), orig |-> b.code, nl |-> 0]},
                                          !.nextId[c] = id + 1]
               ELSE st
        a0 == P_Items([st |-> st1, errs |-> IF M = {} THEN acc.errs ELSE Append(acc.errs, DUP_BLOCKCODE)], c, id, b.items)
        a1l == IF "loop" \in DOMAIN b THEN P_Loop(a0, c, id, b.loop) ELSE a0
        a1 == IF "frames" \in DOMAIN b THEN P_Frames(a1l, c, id, b.frames) ELSE a1l
        dead == {l \in P_LoopsOf(a1.st, c, id) : P_Rows(a1.st, l) = {}}
    IN [st |-> [a1.st EXCEPT !.loops = @ \ dead], errs |-> a1.errs]
RECURSIVE P_Blocks(_, _, _)
P_Blocks(acc, c, bs) == IF bs = <<>> THEN acc ELSE P_Blocks(P_Block(acc, c, Head(bs)), c, Tail(bs))
\* ids and loop counters stay within the model's bounds
P_Fits(st, c) == /\ st.nextId[c] <= MaxId + 1
                 /\ \A x \in P_ContsOf(st, c) : x.nl <= MaxNl /\ Cardinality(P_LoopsOf(st, c, x.id)) <= MaxLoopsPerCont
ParseR(c, d) ==
    IF ~(c \in cifs /\ ~Busy(c)) THEN Off ELSE
    LET doc == DOCS[d]
        ok == \A i \in 1..Len(doc) : /\ ValidC(doc[i].code) /\ \A j \in 1..Len(doc[i].items) : ValidN(doc[i].items[j][1])
                                      /\ "frames" \in DOMAIN doc[i] => \A k \in 1..Len(doc[i].frames) : ValidC(doc[i].frames[k].code)
        r == P_Blocks([st |-> Cur, errs |-> <<>>], c, doc)
    IN IF ~ok \/ ~P_Fits(r.st, c) THEN Off
       ELSE On([op |-> "parse_into", cif |-> c, doc |-> d, blocks |-> doc, rc |-> OK, errs |-> r.errs], r.st)

-----------------------------------------------------------------------------
CSl == SeqToSet(CSLOTS)
LSl == SeqToSet(LSLOTS)

\* every call with every argument of the universe, evaluated in the current state
Results ==
    {CreateCifR(c) : c \in CIFS} \cup {DestroyCifR(c) : c \in CIFS} \cup {GetAllBlocksR(c) : c \in CIFS}
    \cup {ItrNextR(c) : c \in CIFS} \cup {ItrRemoveR(c) : c \in CIFS} \cup {ItrCloseR(c) : c \in CIFS} \cup {ItrAbortR(c) : c \in CIFS}
    \cup {ItrUpdateR(c, p) : c \in CIFS, p \in Packets}
    \cup {CreateBlockR(c, code) : c \in CIFS, code \in CODES} \cup {GetBlockR(c, code) : c \in CIFS, code \in CODES}
    \cup {GetAllFramesR(s) : s \in CSl} \cup {GetCodeR(s) : s \in CSl} \cup {AssertBlockR(s) : s \in CSl}
    \cup {FreeContainerR(s) : s \in CSl} \cup {DestroyContainerR(s) : s \in CSl}
    \cup {GetAllLoopsR(s) : s \in CSl} \cup {PruneR(s) : s \in CSl}
    \cup {CreateFrameR(s, code) : s \in CSl, code \in CODES} \cup {GetFrameR(s, code) : s \in CSl, code \in CODES}
    \cup {GetCategoryLoopR(s, cat) : s \in CSl, cat \in CATS}
    \cup {CreateLoopR(s, cat, ns) : s \in CSl, cat \in CATS, ns \in NameSeqs}
    \cup {GetItemLoopR(s, n) : s \in CSl, n \in NAMES} \cup {GetValueR(s, n) : s \in CSl, n \in NAMES}
    \cup {RemoveItemR(s, n) : s \in CSl, n \in NAMES} \cup {SetValueR(s, n, v) : s \in CSl, n \in NAMES, v \in VALS}
    \cup {FreeLoopR(t) : t \in LSl} \cup {LoopDestroyR(t) : t \in LSl} \cup {LoopGetCategoryR(t) : t \in LSl}
    \cup {LoopGetNamesR(t) : t \in LSl} \cup {GetPacketsR(t) : t \in LSl}
    \cup {LoopSetCategoryR(t, cat) : t \in LSl, cat \in CATS}
    \cup {LoopAddItemR(t, n, v) : t \in LSl, n \in NAMES, v \in VALS}
    \cup {LoopAddPacketR(t, p) : t \in LSl, p \in Packets}
    \cup {ParseR(c, d) : c \in CIFS, d \in DOMAIN DOCS}

EnabledResults == {r \in Results : r.en}
\* calls that leave the whole state (store and handles) as it is: queries and refused calls.  They are not transitions of
\* the state graph; they are emitted with each state and replayed as a batch after the state's history.
Probes == {r.e : r \in {x \in EnabledResults : x.new = Cur}}

\* r's log entry agrees with the partial entry sc on every field sc gives
Matches(e, sc) == e.op = sc.op /\ \A f \in DOMAIN sc : f \in DOMAIN e /\ e[f] = sc[f]      \* (op first: fields of the same name hold different types in different calls)

Next == \E r \in EnabledResults :
           /\ Len(hist) < MaxHist + Len(SCRIPT)
           /\ Len(hist) < Len(SCRIPT) => Matches(r.e, SCRIPT[Len(hist) + 1])
           \* (inside the scripted prefix a call that leaves the state as it is - a refusal - may be a step: what follows a
           \* refusal is then explored like what follows any other call; the view below keeps the prefix positions apart)
           /\ (r.new # Cur \/ Len(hist) < Len(SCRIPT))
           /\ cifs' = r.new.cifs /\ cont' = r.new.cont /\ loops' = r.new.loops /\ vals' = r.new.vals
           /\ nextId' = r.new.nextId /\ hc' = r.new.hc /\ hl' = r.new.hl /\ itr' = r.new.itr /\ snap' = r.new.snap
           /\ hist' = Append(hist, r.e)

Spec == Init /\ [][Next]_vars


-----------------------------------------------------------------------------
\* The abstract state in the shape the harness projects it (tools/vcheck canonicalises both sides)
StateOut == [cifs |-> cifs, cont |-> cont, loops |-> loops, vals |-> vals,
             tx |-> [c \in CIFS |-> Busy(c)]]

\* ---- C04: the documented data model ----
TypeOK == /\ cifs \subseteq CIFS
          /\ \A x \in cont : x.cif \in cifs /\ (x.parent = 0 \/ ContExists(x.cif, x.parent))
          /\ \A l \in loops : ContExists(l.cif, l.cid)
          /\ \A v \in vals : ItemLoops(v.cif, v.cid, v.name) # {} /\ v.row >= 1

CodesUniquePerParent == \A x, y \in cont : (x.cif = y.cif /\ x.parent = y.parent /\ x.norm = y.norm) => x = y
NameOncePerContainer == \A l1, l2 \in loops : (l1.cif = l2.cif /\ l1.cid = l2.cid /\ l1 # l2) => Norms(l1) \cap Norms(l2) = {}
NameOncePerLoop == \A l \in loops : \A i, j \in l.items : i.norm = j.norm => i = j
AtMostOneScalarLoop == \A l1, l2 \in loops : (l1.cif = l2.cif /\ l1.cid = l2.cid /\ l1.cat = "" /\ l2.cat = "") => l1 = l2
ScalarLoopAtMostOnePacket == \A l \in loops : l.cat = "" => Cardinality(Rows(l)) <= 1
NoItemlessLoop == \A l \in loops : l.items # {}
LoopNumsUnique == \A l1, l2 \in loops : (l1.cif = l2.cif /\ l1.cid = l2.cid /\ l1.num = l2.num) => l1 = l2
OrigSpellingNormalises == /\ \A x \in cont : NormC(x.orig) = x.norm
                          /\ \A l \in loops : \A i \in l.items : NormN(i.orig) = i.norm
HandlesConsistent == /\ \A t \in DOMAIN hl : hl[t] # NoneH => (hc[hl[t].via] # NoneH /\ hc[hl[t].via].cif = hl[t].cif /\ hc[hl[t].via].id = hl[t].cid)
                     /\ \A c \in CIFS : Busy(c) => (c \in cifs /\ hl[itr[c].lslot] # NoneH)

DataModel == TypeOK /\ CodesUniquePerParent /\ NameOncePerContainer /\ NameOncePerLoop /\ AtMostOneScalarLoop
             /\ ScalarLoopAtMostOnePacket /\ NoItemlessLoop /\ LoopNumsUnique /\ OrigSpellingNormalises /\ HandlesConsistent

\* a loop never gains or loses the scalar category
SameLoop(l, m) == l.cif = m.cif /\ l.cid = m.cid /\ l.num = m.num
ScalarCategoryStable == [][\A l \in loops : \A m \in loops' : SameLoop(l, m) => ((l.cat = "") <=> (m.cat = ""))]_vars

\* no operation on one managed CIF is visible in another
CifView(c) == <<ContsOf(c), {x \in loops : x.cif = c}, {x \in vals : x.cif = c}>>
OtherCifUnchanged == [][\A c \in CIFS : (Len(hist') > Len(hist) /\ hist'[Len(hist')].cif # c) => CifView(c)' = CifView(c)]_vars

\* ---- C05: a failed call leaves the CIF unchanged ----
LastRc == IF "rc" \in DOMAIN hist[Len(hist)] THEN hist[Len(hist)].rc ELSE OK
FailedCallAtomic == [][(Len(hist') > Len(hist) /\ LastRc' \notin {OK, FINISHED}) => <<cont, loops, vals>>' = <<cont, loops, vals>>]_vars

\* ---- C06: iterators ----
ItrDeliversOnce == \A c \in CIFS : Busy(c) =>
                      LET it == itr[c] IN /\ \A i, j \in 1..Len(it.deliv) : i # j => it.deliv[i] # it.deliv[j]
                                          /\ SeqToSet(it.deliv) \subseteq it.all
                                          /\ it.fin => SeqToSet(it.deliv) = it.all
                                          /\ SeqToSet(it.deliv) \cup SeqToSet(it.pending) = it.all
LastOp == hist[Len(hist)].op
AbortReverts == [][\A c \in CIFS : (Len(hist') > Len(hist) /\ LastOp' = "itr_abort" /\ hist'[Len(hist')].cif = c) => CifView(c)' = snap[c]]_vars
CloseCommits == [][(Len(hist') > Len(hist) /\ LastOp' = "itr_close") => <<cont, loops, vals>>' = <<cont, loops, vals>>]_vars
\* an iterator only ever touches rows of its own loop
ItrTouchesOnlyCurrent == [][(Len(hist') > Len(hist) /\ LastOp' \in {"itr_update", "itr_remove"}) =>
                              LET c == hist'[Len(hist')].cif  it == itr[c]
                              IN \A x \in (vals \ vals') \cup (vals' \ vals) : x.cif = c /\ x.cid = it.cid /\ x.row = it.cur /\ x.name \in it.names]_vars

\* ---- behaviour emission for replay ----
\* one line per distinct state (INVARIANT: evaluated once per new state) with the calls that leave it unchanged,
\* one line per generated state-changing transition (ACTION_CONSTRAINT)
EmitState == PrintT(<<"STATE", ToJson([h |-> hist, s |-> StateOut, probes |-> Probes])>>)
EmitEdge == PrintT(<<"EDGE", ToJson([h |-> hist', s |-> StateOut'])>>)
View == <<cifs, cont, loops, vals, nextId, hc, hl, itr, snap, IF Len(hist) < Len(SCRIPT) THEN Len(hist) ELSE Len(SCRIPT)>>
-----------------------------------------------------------------------------
(***************************************************************************)
(* Allocation faults (C17).  While it executes one call the implementation *)
(* requests some number of dynamic allocations (its own, the hash tables', *)
(* the storage engine's).  For every enabled call r and every one of those *)
(* requests there is a fault variant of r: the request fails, the call     *)
(* reports CIF_MEMORY_ERROR or CIF_ERROR, hands nothing out, and the whole *)
(* state - the store and what the caller holds - is as before; the same    *)
(* call made again is r itself.  How many requests a call makes is not     *)
(* modelled: the replay counts them and enumerates the variants.           *)
(*                                                                         *)
(* A variant whose failure the implementation absorbs (the call completes  *)
(* exactly as r) is also a behaviour of Faulted: no error is due when      *)
(* nothing was lost.                                                       *)
(***************************************************************************)
MEMORY_ERROR == 3
FaultRcs == {MEMORY_ERROR, ERROR}
Faulted(r) == {On([r.e EXCEPT !.rc = rc], Cur) : rc \in FaultRcs} \cup {r}
\* a fault variant never moves the state unless it is the call itself, and after it the call is still enabled with the same result
\* calls that report a result code (the void release functions have nothing to report a failure with)
Fallible == {r \in EnabledResults : "rc" \in DOMAIN r.e}
FaultLeavesState == \A r \in Fallible : \A f \in Faulted(r) : f = r \/ (f.new = Cur /\ f.e.rc \in FaultRcs)
StateOutOf(n) == [cifs |-> n.cifs, cont |-> n.cont, loops |-> n.loops, vals |-> n.vals, tx |-> [c \in CIFS |-> n.itr[c] # NoneH]]
\* everything the replay needs to enumerate the variants in a state: each enabled call with the state it leads to
EmitFault == PrintT(<<"FSTATE", ToJson([h |-> hist, s |-> StateOut,
                                        hcid |-> [x \in DOMAIN hc |-> IF hc[x] = NoneH THEN 0 ELSE hc[x].id],
                                        calls |-> {[e |-> r.e, s2 |-> StateOutOf(r.new), same |-> r.new = Cur] : r \in Fallible}])>>)
=============================================================================
