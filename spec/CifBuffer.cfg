SPECIFICATION Spec
CONSTANTS
 MaxLen = 6
 CARRY = TRUE
INVARIANT ChunkingIndependence LineCountIndependence NoCrLeft OrdinaryPreserved
CHECK_DEADLOCK FALSE
