---- MODULE CifBuffer_TTrace_1790986201 ----
EXTENDS CifBuffer, Sequences, TLCExt, Toolbox, Naturals, TLC

_expression ==
    LET CifBuffer_TEExpression == INSTANCE CifBuffer_TEExpression
    IN CifBuffer_TEExpression!expression
----

_trace ==
    LET CifBuffer_TETrace == INSTANCE CifBuffer_TETrace
    IN CifBuffer_TETrace!trace
----

_inv ==
    ~(
        TLCGet("level") = Len(_TETrace)
        /\
        stream = (<<"CR", "LF">>)
        /\
        cuts = ({})
    )
----

_init ==
    /\ stream = _TETrace[1].stream
    /\ cuts = _TETrace[1].cuts
----

_next ==
    /\ \E i,j \in DOMAIN _TETrace:
        /\ \/ /\ j = i + 1
              /\ i = TLCGet("level")
        /\ stream  = _TETrace[i].stream
        /\ stream' = _TETrace[j].stream
        /\ cuts  = _TETrace[i].cuts
        /\ cuts' = _TETrace[j].cuts

\* Uncomment the ASSUME below to write the states of the error trace
\* to the given file in Json format. Note that you can pass any tuple
\* to `JsonSerialize`. For example, a sub-sequence of _TETrace.
    \* ASSUME
    \*     LET J == INSTANCE Json
    \*         IN J!JsonSerialize("CifBuffer_TTrace_1790986201.json", _TETrace)

=============================================================================

 Note that you can extract this module `CifBuffer_TEExpression`
  to a dedicated file to reuse `expression` (the module in the 
  dedicated `CifBuffer_TEExpression.tla` file takes precedence 
  over the module `CifBuffer_TEExpression` below).

---- MODULE CifBuffer_TEExpression ----
EXTENDS CifBuffer, Sequences, TLCExt, Toolbox, Naturals, TLC

expression == 
    [
        \* To hide variables of the `CifBuffer` spec from the error trace,
        \* remove the variables below.  The trace will be written in the order
        \* of the fields of this record.
        stream |-> stream
        ,cuts |-> cuts
        
        \* Put additional constant-, state-, and action-level expressions here:
        \* ,_stateNumber |-> _TEPosition
        \* ,_streamUnchanged |-> stream = stream'
        
        \* Format the `stream` variable as Json value.
        \* ,_streamJson |->
        \*     LET J == INSTANCE Json
        \*     IN J!ToJson(stream)
        
        \* Lastly, you may build expressions over arbitrary sets of states by
        \* leveraging the _TETrace operator.  For example, this is how to
        \* count the number of times a spec variable changed up to the current
        \* state in the trace.
        \* ,_streamModCount |->
        \*     LET F[s \in DOMAIN _TETrace] ==
        \*         IF s = 1 THEN 0
        \*         ELSE IF _TETrace[s].stream # _TETrace[s-1].stream
        \*             THEN 1 + F[s-1] ELSE F[s-1]
        \*     IN F[_TEPosition - 1]
    ]

=============================================================================



Parsing and semantic processing can take forever if the trace below is long.
 In this case, it is advised to uncomment the module below to deserialize the
 trace from a generated binary file.

\*
\*---- MODULE CifBuffer_TETrace ----
\*EXTENDS CifBuffer, IOUtils, TLC
\*
\*trace == IODeserialize("CifBuffer_TTrace_1790986201.bin", TRUE)
\*
\*=============================================================================
\*

---- MODULE CifBuffer_TETrace ----
EXTENDS CifBuffer, TLC

trace == 
    <<
    ([stream |-> <<>>,cuts |-> {}]),
    ([stream |-> <<"CR">>,cuts |-> {}]),
    ([stream |-> <<"CR", "LF">>,cuts |-> {}])
    >>
----


=============================================================================

---- CONFIG CifBuffer_TTrace_1790986201 ----
CONSTANTS
    MaxLen = 4
    CARRY = FALSE

INVARIANT
    _inv

CHECK_DEADLOCK
    \* CHECK_DEADLOCK off because of PROPERTY or INVARIANT above.
    FALSE

INIT
    _init

NEXT
    _next

CONSTANT
    _TETrace <- _trace

ALIAS
    _expression
=============================================================================
\* Generated on Sat Oct 03 00:10:02 UTC 2026