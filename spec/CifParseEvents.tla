--------------------------- MODULE CifParseEvents ---------------------------
(***************************************************************************)
(* The handler-callback protocol of cif_parse() (src/parser.c: parse_cif,  *)
(* parse_container, parse_item, parse_loop, parse_loop_packets) over a     *)
(* constant, well-formed document tree, with a scripted handler: the k-th  *)
(* handler callback is answered by script[k].  The scanner's skip_depth    *)
(* counter is modelled as it is in the code (`sd`), so that the balance of *)
(* the counter at the end of every production is a checked invariant.      *)
(*                                                                         *)
(* The state threaded through the recursive operators is                   *)
(*   [log, sd, stored, res]                                                *)
(* log: callbacks delivered so far; stored: ids of the entities recorded   *)
(* in the target CIF (STORING) ; res: the C functions' `result`.           *)
(* As in CifWalk a callback beyond the end of the script answers NEED,     *)
(* which behaves like an error code; TLC's state is the script.            *)
(***************************************************************************)
EXTENDS Integers, Sequences, FiniteSets, TLC, Json

CONSTANTS Doc,       \* [blocks: Seq(Container)]; Container = [id, kids]; kids: Seq of
                     \*   [k |-> "item", id] | [k |-> "loop", id, names, packets: Seq([id, items])] | [k |-> "frame", c |-> Container]
          Answers, STORING, MaxLen

VARIABLE script

CONT == 0   SKIPC == -1   SKIPS == -2   END == -3
NEED == 99
OK == 0

AnswerAt(k) == IF k <= Len(script) THEN script[k] ELSE NEED
\* deliver a handler callback: appends to the log, yields the answer in res
Cb(kind, id, st) == LET r == AnswerAt(Len(st.log) + 1)
                    IN [st EXCEPT !.log = Append(@, [cb |-> kind, id |-> id, r |-> r]), !.full = Append(@, [cb |-> kind, id |-> id, r |-> r]), !.res = r]
\* deliver a syntax callback (data name: "dn", loop_ keyword: "kw"): they return nothing and are not made while skipping;
\* `full` is the interleaving of handler and syntax callbacks, `log` the handler callbacks alone (the script's index)
Syn(kind, t, st) == IF st.sd > 0 THEN st ELSE [st EXCEPT !.full = Append(@, [cb |-> kind, id |-> t, r |-> 0])]
RECURSIVE SynNames(_, _, _)
SynNames(names, i, st) == IF i > Len(names) THEN st ELSE SynNames(names, i + 1, Syn("dn", names[i], st))
Dec(st) == IF st.sd > 0 THEN [st EXCEPT !.sd = @ - 1] ELSE st
Store(st, id) == IF STORING THEN [st EXCEPT !.stored = @ \cup {id}] ELSE st

\* ---- parse_item (scalar): name is NULL while skipping, so no callback then
ParseItem(it, st0) ==
    LET skipping == st0.sd > 0
        st1 == IF skipping THEN [st0 EXCEPT !.sd = @ + 1] ELSE st0
        st2 == IF skipping THEN [st1 EXCEPT !.res = OK]
               ELSE LET c == Cb("item", it.id, st1)
                    IN IF c.res = CONT THEN [Store(c, it.id) EXCEPT !.res = OK]
                       ELSE IF c.res = SKIPC THEN [c EXCEPT !.res = OK]
                       ELSE IF c.res = SKIPS THEN [c EXCEPT !.sd = 2, !.res = OK]
                       ELSE c
    IN Dec(st2)

\* ---- parse_loop_packets: values i.. of packet p (column index i-1)
RECURSIVE PacketValuesFrom(_, _, _)
PacketValuesFrom(p, i, st) ==
    IF i > Len(p.items) THEN st
    ELSE LET c == IF st.sd > 0 THEN [st EXCEPT !.res = OK] ELSE Cb("item", p.items[i], st)
             c2 == IF c.res = SKIPC THEN [c EXCEPT !.res = OK]
                   ELSE IF c.res = SKIPS THEN [c EXCEPT !.sd = 1, !.res = OK]
                   ELSE c
         IN IF c2.res # OK THEN c2 ELSE PacketValuesFrom(p, i + 1, c2)

ParsePacket(p, st0) ==
    LET st1 == IF st0.sd > 0 THEN [st0 EXCEPT !.sd = @ + 1, !.res = OK]
               ELSE LET c == Cb("packet_start", p.id, st0)
                    IN IF c.res = SKIPC THEN [c EXCEPT !.sd = 1, !.res = OK]
                       ELSE IF c.res = SKIPS THEN [c EXCEPT !.sd = 2, !.res = OK]
                       ELSE c             \* CONTINUE, or END / error (which ends the loop body)
    IN IF st1.res # OK THEN st1
       ELSE LET v == PacketValuesFrom(p, 1, st1)
            IN IF v.res # OK THEN v
               ELSE IF v.sd > 0 THEN [v EXCEPT !.sd = @ - 1]
               ELSE LET e == Cb("packet_end", p.id, v)
                    IN IF e.res = CONT THEN [Store(e, p.id) EXCEPT !.res = OK]
                       ELSE IF e.res = SKIPC THEN [e EXCEPT !.res = OK]
                       ELSE IF e.res = SKIPS THEN [e EXCEPT !.sd = 1, !.res = OK]
                       ELSE e

RECURSIVE PacketsFrom(_, _, _)
PacketsFrom(l, i, st) ==
    IF i > Len(l.packets) THEN st
    ELSE LET r == ParsePacket(l.packets[i], st) IN IF r.res # OK THEN r ELSE PacketsFrom(l, i + 1, r)

\* ---- parse_loop
ParseLoop(l, st0) ==
    LET st1 == IF st0.sd > 0 THEN [st0 EXCEPT !.sd = @ + 1] ELSE SynNames(l.names, 1, st0)      \* parse_loop_header reports each name
        \* loop_start is delivered after the header, only when not skipping
        st2 == IF st1.sd > 0 THEN [st1 EXCEPT !.res = OK]
               ELSE LET c == Cb("loop_start", l.id, st1)
                    IN IF c.res = CONT THEN [Store(c, l.id) EXCEPT !.res = OK]
                       ELSE IF c.res = SKIPC THEN [c EXCEPT !.sd = 1, !.res = OK]
                       ELSE IF c.res = SKIPS THEN [c EXCEPT !.sd = 2, !.res = OK]
                       ELSE c
        st3 == IF st2.res # OK THEN st2 ELSE PacketsFrom(l, 1, st2)
    IN IF st3.sd > 0 THEN [st3 EXCEPT !.sd = @ - 1]
       ELSE IF st3.res = OK
            THEN LET e == Cb("loop_end", l.id, st3)
                 IN IF e.res = SKIPC THEN [e EXCEPT !.res = OK]
                    ELSE IF e.res = SKIPS THEN [e EXCEPT !.sd = 1, !.res = OK]
                    ELSE e
       ELSE st3

\* ---- parse_container
\* loops of container c that hold no stored packet are pruned when the container's end is reached normally
Prune(c, st) == LET dead == {c.kids[i].id : i \in {j \in 1..Len(c.kids) : c.kids[j].k = "loop"
                                   /\ \A q \in 1..Len(c.kids[j].packets) : c.kids[j].packets[q].id \notin st.stored}}
                IN [st EXCEPT !.stored = @ \ dead]

RECURSIVE ParseContainer(_, _, _)
RECURSIVE KidsFrom(_, _, _)
KidsFrom(c, i, st) ==
    IF i > Len(c.kids) THEN st
    ELSE LET kid == c.kids[i]
             r == IF kid.k = "item" THEN ParseItem(kid, Syn("dn", kid.n, st))
                  ELSE IF kid.k = "loop" THEN ParseLoop(kid, Syn("kw", "loop_", st))
                  ELSE ParseContainer(kid.c, FALSE, st)
         IN IF r.res # OK THEN r ELSE KidsFrom(c, i + 1, r)

ParseContainer(c, isBlock, st0) ==
    LET created == IF st0.sd <= 0 THEN Store(st0, c.id) ELSE st0          \* the container exists before its start callback
        st1 == IF created.sd > 0 THEN [created EXCEPT !.sd = @ + 1, !.res = OK]
               ELSE LET s == Cb(IF isBlock THEN "block_start" ELSE "frame_start", c.id, created)
                    IN IF s.res = CONT THEN [s EXCEPT !.res = OK]
                       ELSE IF s.res = SKIPC THEN [s EXCEPT !.sd = 1, !.res = OK]
                       ELSE IF s.res = SKIPS THEN [s EXCEPT !.sd = 2, !.res = OK]
                       ELSE s
        st2 == IF st1.res # OK THEN st1 ELSE KidsFrom(c, 1, st1)
        st3 == Dec(st2)
    IN IF st3.res = OK /\ st3.sd <= 0
       THEN LET e == Cb(IF isBlock THEN "block_end" ELSE "frame_end", c.id, Prune(c, st3))
            IN IF e.res = SKIPS THEN [e EXCEPT !.sd = 1, !.res = OK]
               ELSE IF e.res \in {CONT, SKIPC} THEN [e EXCEPT !.res = OK]
               ELSE e
       ELSE st3

\* ---- parse_cif
RECURSIVE BlocksFrom(_, _)
BlocksFrom(i, st) ==
    IF i > Len(Doc.blocks) THEN st
    ELSE LET r == ParseContainer(Doc.blocks[i], TRUE, st) IN IF r.res # OK THEN r ELSE BlocksFrom(i + 1, r)

Parse ==
    LET st0 == [log |-> <<>>, full |-> <<>>, sd |-> 0, stored |-> {}, res |-> OK]
        s == Cb("cif_start", "cif", st0)
    IN IF s.res = END THEN [log |-> s.log, full |-> s.full, rc |-> 0, stored |-> s.stored, sd |-> s.sd]
       ELSE IF s.res \notin {CONT, SKIPC, SKIPS} THEN [log |-> s.log, full |-> s.full, rc |-> s.res, stored |-> s.stored, sd |-> s.sd]
       ELSE LET st1 == IF s.res = CONT THEN [s EXCEPT !.res = OK] ELSE [s EXCEPT !.sd = 1, !.res = OK]
                b == Dec(BlocksFrom(1, st1))
                e == IF b.res = OK THEN Cb("cif_end", "cif", b) ELSE b
            IN [log |-> e.log, full |-> e.full, rc |-> IF e.res > 0 THEN e.res ELSE 0, stored |-> e.stored, sd |-> e.sd]

-----------------------------------------------------------------------------
Init == script = <<>>
P == Parse
Unfinished == P.rc = NEED
Next == /\ Unfinished /\ Len(script) < MaxLen
        /\ \E a \in Answers : script' = Append(script, a)
Spec == Init /\ [][Next]_script

\* ---- all entities of the document
RECURSIVE ContsOf(_)
ContsOf(c) == {c} \cup UNION {ContsOf(c.kids[i].c) : i \in {j \in 1..Len(c.kids) : c.kids[j].k = "frame"}}
AllConts == UNION {ContsOf(Doc.blocks[i]) : i \in 1..Len(Doc.blocks)}
ScalarsOf(c) == {c.kids[i].id : i \in {j \in 1..Len(c.kids) : c.kids[j].k = "item"}}
LoopsOf(c) == {c.kids[i] : i \in {j \in 1..Len(c.kids) : c.kids[j].k = "loop"}}
AllLoops == UNION {LoopsOf(c) : c \in AllConts}
AllPackets == UNION {{l.packets[i] : i \in 1..Len(l.packets)} : l \in AllLoops}
AllStorable == {c.id : c \in AllConts} \cup UNION {ScalarsOf(c) : c \in AllConts} \cup {l.id : l \in AllLoops} \cup {p.id : p \in AllPackets}

\* ---- the property (C15) on every finished handler program
Balanced == ~Unfinished => P.sd = 0
AllContinue == \A i \in 1..Len(script) : script[i] = CONT
\* when every handler continues, what is reported is what is stored: every entity, once, in document order
ContinueStoresAll == (~Unfinished /\ AllContinue) => /\ P.rc = 0
                                                     /\ (STORING => P.stored = AllStorable)
                                                     /\ \A i, j \in 1..Len(P.log) : (P.log[i].cb = P.log[j].cb /\ P.log[i].id = P.log[j].id) => i = j
\* END stops with CIF_OK, a positive code aborts and is returned; nothing follows either
StopIsFinal == \A i \in 1..Len(P.log) : (P.log[i].r = END \/ (P.log[i].r > 0 /\ P.log[i].r # NEED)) =>
                    /\ i = Len(P.log)
                    /\ P.rc = IF P.log[i].r = END THEN 0 ELSE P.log[i].r
\* nothing is stored that was not reported with CONTINUE (items, packets), and containers / loops only after a start
\* callback that was not answered with an error
ReportedAndContinued(kind, id) == \E i \in 1..Len(P.log) : P.log[i].cb = kind /\ P.log[i].id = id /\ P.log[i].r = CONT
StoredWasAccepted == STORING =>
    /\ \A c \in AllConts : \A it \in ScalarsOf(c) : it \in P.stored => ReportedAndContinued("item", it)
    /\ \A p \in AllPackets : p.id \in P.stored => ReportedAndContinued("packet_end", p.id)
    /\ \A l \in AllLoops : l.id \in P.stored => ReportedAndContinued("loop_start", l.id)
\* ... and conversely everything reported and continued is stored (when the walk was not cut short, loops keep their packets)
AcceptedIsStored == (STORING /\ ~Unfinished) =>
    /\ \A c \in AllConts : \A it \in ScalarsOf(c) : ReportedAndContinued("item", it) => it \in P.stored
    /\ \A p \in AllPackets : ReportedAndContinued("packet_end", p.id) => p.id \in P.stored
\* no callback for anything inside an entity whose start callback answered a skip
RECURSIVE InsideCont(_)
InsideCont(c) == UNION {IF c.kids[i].k = "item" THEN {c.kids[i].id}
                        ELSE IF c.kids[i].k = "loop" THEN {c.kids[i].id} \cup UNION {{c.kids[i].packets[q].id} \cup {c.kids[i].packets[q].items[z] : z \in 1..Len(c.kids[i].packets[q].items)} : q \in 1..Len(c.kids[i].packets)}
                        ELSE {c.kids[i].c.id} \cup InsideCont(c.kids[i].c) : i \in 1..Len(c.kids)}
InsideLoop(l) == UNION {{l.packets[q].id} \cup {l.packets[q].items[z] : z \in 1..Len(l.packets[q].items)} : q \in 1..Len(l.packets)}
Inside(kind, id) == IF kind \in {"block_start", "frame_start"} THEN InsideCont(CHOOSE c \in AllConts : c.id = id)
                    ELSE IF kind = "loop_start" THEN InsideLoop(CHOOSE l \in AllLoops : l.id = id)
                    ELSE IF kind = "packet_start" THEN {x \in UNION {{p.items[z] : z \in 1..Len(p.items)} : p \in {q \in AllPackets : q.id = id}} : TRUE}
                    ELSE {}
SkippedAreSilentAndUnstored ==
    \A i \in 1..Len(P.log) : (P.log[i].cb \in {"block_start", "frame_start", "loop_start", "packet_start"} /\ P.log[i].r \in {SKIPC, SKIPS}) =>
        /\ \A j \in 1..Len(P.log) : P.log[j].id \notin Inside(P.log[i].cb, P.log[i].id)
        /\ P.stored \cap Inside(P.log[i].cb, P.log[i].id) = {}
        /\ (P.log[i].cb = "packet_start" => P.log[i].id \notin P.stored)

\* syntax callbacks: none for a data name that stands inside a container whose start callback answered a skip; and when
\* every handler continues, one "dn" per data name and one "kw" per loop, each directly before what it announces
RECURSIVE NamesIn(_)
NamesIn(c) == UNION {IF c.kids[i].k = "item" THEN {c.kids[i].n}
                     ELSE IF c.kids[i].k = "loop" THEN {c.kids[i].names[z] : z \in 1..Len(c.kids[i].names)}
                     ELSE NamesIn(c.kids[i].c) : i \in 1..Len(c.kids)}
SyntaxSilentInSkipped ==
    \A i \in 1..Len(P.full) : (P.full[i].cb \in {"block_start", "frame_start"} /\ P.full[i].r \in {SKIPC, SKIPS}) =>
        \A j \in 1..Len(P.full) : P.full[j].cb = "dn" => P.full[j].id \notin NamesIn(CHOOSE c \in AllConts : c.id = P.full[i].id)
AllNames == UNION {NamesIn(Doc.blocks[i]) : i \in 1..Len(Doc.blocks)}
SyntaxCompleteWhenContinued ==
    (~Unfinished /\ AllContinue) =>
        /\ \A n \in AllNames : Cardinality({j \in 1..Len(P.full) : P.full[j].cb = "dn" /\ P.full[j].id = n}) = 1
        /\ Cardinality({j \in 1..Len(P.full) : P.full[j].cb = "kw"}) = Cardinality(AllLoops)
        /\ \A j \in 1..Len(P.full) : P.full[j].cb = "kw" => (j < Len(P.full) /\ P.full[j + 1].cb = "dn")
HandlerLogIsProjection == [j \in 1..Len(P.log) |-> P.log[j]] = P.log /\ Len(SelectSeq(P.full, LAMBDA e : e.cb \notin {"dn", "kw"})) = Len(P.log)

Properties == SyntaxSilentInSkipped /\ SyntaxCompleteWhenContinued /\ HandlerLogIsProjection /\ Balanced /\ ContinueStoresAll /\ StopIsFinal /\ StoredWasAccepted /\ AcceptedIsStored /\ SkippedAreSilentAndUnstored

EmitDone == (~Unfinished \/ Len(script) >= MaxLen) =>
                PrintT(<<"PARSE", ToJson([script |-> script, log |-> P.log, full |-> P.full, rc |-> P.rc, stored |-> P.stored, done |-> ~Unfinished])>>)
=============================================================================
