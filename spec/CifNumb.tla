-------------------------------- MODULE CifNumb --------------------------------
(***************************************************************************)
(* C10: CIF's numeric syntax, the fields a number's text determines, and   *)
(* exact-arithmetic oracles for the conversions between text and double.   *)
(*                                                                         *)
(* Part 1 (generation): TLC enumerates every string over SIGMA up to       *)
(* MaxLen and emits whether it is a number and, if so, its fields          *)
(*   sign, digits (no leading zeros, decimal point removed), scale         *)
(*   (decimals minus exponent), su digits.                                 *)
(* Part 2 (trace validation): records produced by the library are judged:  *)
(*   "parse":  text fields D, scale s  ->  double m * 2^e  must be a       *)
(*             nearest double (ties: even mantissa), likewise the su       *)
(*   "format": double m * 2^e rendered at scale s as digits D must be      *)
(*             within half a unit of the last place; text must parse back  *)
(*             to the same fields; autoinit: su digits <= rule and the     *)
(*             next scale would exceed it                                   *)
(*   "bignat": arithmetic self-check against the driver's integers         *)
(***************************************************************************)
EXTENDS BigNat, FiniteSets, TLC, Json, IOUtils

CONSTANTS SIGMA, MaxLen
VARIABLES str, l

\* ---------------------------------------------------------------- syntax
IsDigit(c) == c \in {"0", "1", "2", "3", "4", "5", "6", "7", "8", "9"}
\* length of the longest run of digits starting at position i
RECURSIVE DigitRun(_, _)
DigitRun(s, i) == IF i <= Len(s) /\ IsDigit(s[i]) THEN 1 + DigitRun(s, i + 1) ELSE 0
\* [ok, ...fields] ; positions are 1-based
ParseNum(s) ==
    LET p0 == IF Len(s) >= 1 /\ s[1] \in {"+", "-"} THEN 2 ELSE 1
        sign == IF Len(s) >= 1 /\ s[1] = "-" THEN -1 ELSE 1
        n1 == DigitRun(s, p0)                                   \* integer digits
        hasdot == p0 + n1 <= Len(s) /\ s[p0 + n1] = "."
        n2 == IF hasdot THEN DigitRun(s, p0 + n1 + 1) ELSE 0      \* fraction digits
        p1 == p0 + n1 + (IF hasdot THEN 1 + n2 ELSE 0)           \* after the mantissa
        mant_ok == n1 + n2 >= 1
        hasexp == p1 <= Len(s) /\ s[p1] \in {"e", "E"}
        pe == IF hasexp /\ p1 + 1 <= Len(s) /\ s[p1 + 1] \in {"+", "-"} THEN p1 + 2 ELSE p1 + 1
        esign == IF hasexp /\ p1 + 1 <= Len(s) /\ s[p1 + 1] = "-" THEN -1 ELSE 1
        ne == IF hasexp THEN DigitRun(s, pe) ELSE 0
        exp_ok == ~hasexp \/ ne >= 1
        p2 == IF hasexp THEN pe + ne ELSE p1
        hassu == p2 <= Len(s) /\ s[p2] = "("
        ns == IF hassu THEN DigitRun(s, p2 + 1) ELSE 0
        su_ok == ~hassu \/ (ns >= 1 /\ p2 + 1 + ns <= Len(s) /\ s[p2 + 1 + ns] = ")")
        p3 == IF hassu THEN p2 + ns + 2 ELSE p2
        ok == mant_ok /\ exp_ok /\ su_ok /\ p3 = Len(s) + 1
        mant == SubSeq(s, p0, p0 + n1 - 1) \o (IF hasdot THEN SubSeq(s, p0 + n1 + 1, p0 + n1 + n2) ELSE <<>>)
        expdigits == SubSeq(s, pe, pe + ne - 1)
        sudigits == SubSeq(s, p2 + 1, p2 + ns)
    IN [ok |-> ok, sign |-> sign, mant |-> mant, decimals |-> n2, esign |-> esign, exp |-> expdigits, hassu |-> hassu, su |-> sudigits]
\* strip leading zeros (keep one digit)
RECURSIVE Strip(_)
Strip(d) == IF Len(d) > 1 /\ d[1] = "0" THEN Strip(Tail(d)) ELSE d
DigVal(c) == CASE c = "0" -> 0 [] c = "1" -> 1 [] c = "2" -> 2 [] c = "3" -> 3 [] c = "4" -> 4 [] c = "5" -> 5 [] c = "6" -> 6 [] c = "7" -> 7 [] c = "8" -> 8 [] OTHER -> 9
RECURSIVE SmallInt(_)
SmallInt(d) == IF d = <<>> THEN 0 ELSE 10 * SmallInt(SubSeq(d, 1, Len(d) - 1)) + DigVal(d[Len(d)])   \* short digit strings only
Fields(s) == LET p == ParseNum(s)
             IN [sign |-> p.sign, digits |-> Strip(p.mant), scale |-> p.decimals - p.esign * SmallInt(p.exp),
                 su |-> IF p.hassu THEN Strip(p.su) ELSE <<>>, hassu |-> p.hassu]
Accept(s) == ParseNum(s).ok

\* an independent statement of the same language, for M1: split at the optional parts and test each part's shape
AllDigits(d) == \A i \in 1..Len(d) : IsDigit(d[i])
Mantissa(d) == \E i \in 0..Len(d) : \* i digits, optional point, rest digits; at least one digit overall
                  \/ (i = Len(d) /\ AllDigits(d) /\ Len(d) >= 1)
                  \/ (i < Len(d) /\ d[i + 1] = "." /\ AllDigits(SubSeq(d, 1, i)) /\ AllDigits(SubSeq(d, i + 2, Len(d))) /\ Len(d) >= 2)
Unsigned(d) == \E a \in 1..Len(d), b \in 1..(Len(d) + 1) : \* mantissa = d[1..a], exponent part d[a+1..b-1], su part d[b..]
                  /\ a < b /\ Mantissa(SubSeq(d, 1, a))
                  /\ LET ex == SubSeq(d, a + 1, b - 1)  su == SubSeq(d, b, Len(d))
                     IN /\ (ex = <<>> \/ (ex[1] \in {"e", "E"} /\ LET r == Tail(ex) IN LET q == IF r # <<>> /\ r[1] \in {"+", "-"} THEN Tail(r) ELSE r IN q # <<>> /\ AllDigits(q)))
                        /\ (su = <<>> \/ (Len(su) >= 3 /\ su[1] = "(" /\ su[Len(su)] = ")" /\ AllDigits(SubSeq(su, 2, Len(su) - 1))))
Accept2(s) == s # <<>> /\ Unsigned(IF s[1] \in {"+", "-"} THEN Tail(s) ELSE s)
SyntaxAgrees == Accept(str) <=> Accept2(str)

GInit == str = <<>> /\ l = 0
GNext == Len(str) < MaxLen /\ (\E c \in SIGMA : str' = Append(str, c)) /\ UNCHANGED l
GSpec == GInit /\ [][GNext]_<<str, l>>
EmitNum == PrintT(<<"NUM", ToJson([s |-> str, ok |-> Accept(str), f |-> IF Accept(str) THEN Fields(str) ELSE [sign |-> 0]])>>)

\* ---------------------------------------------------------------- exact conversions (trace validation)
TraceLog == ndJsonDeserialize(IOEnv.TRACE)
R == TraceLog[l]
Pos(n) == IF n > 0 THEN n ELSE 0
\* is m * 2^e (m a BigNat) a nearest double to D * 10^-s ?   (necessary condition: within half a unit in the last place,
\* a tie only with an even mantissa)
Nearest(D, s, m, e) ==
    LET A == Mul(Mul(D, Pow10(Pos(-s))), Pow2(Pos(-e)))
        B == Mul(Mul(m, Pow2(Pos(e))), Pow10(Pos(s)))
        H == Mul(Pow2(Pos(e)), Pow10(Pos(s)))
        dd == MulSmall(AbsDiff(A, B), 2)
        c == Cmp(dd, H)
    IN c < 0 \/ (c = 0 /\ IsEven(m))
\* are the digits D at scale s within half a unit of the last place of the double m * 2^e ?
Rendered(D, s, m, e) ==
    LET A == Mul(Mul(m, Pow2(Pos(e))), Pow10(Pos(s)))
        B == Mul(Mul(D, Pow2(Pos(-e))), Pow10(Pos(-s)))
        H == Mul(Pow2(Pos(-e)), Pow10(Pos(-s)))
    IN Leq(MulSmall(AbsDiff(A, B), 2), H)
\* would the uncertainty su = m * 2^e, at scale s + 1, still round to at most `rule` ?  (then s was not the largest scale)
FitsAtNextScale(m, e, s, rule) ==
    LET A == MulSmall(Mul(Mul(m, Pow2(Pos(e))), Pow10(Pos(s + 1))), 2)
        B == Mul(Mul(FromInt(2 * rule + 1), Pow2(Pos(-e))), Pow10(Pos(-(s + 1))))
    IN Cmp(A, B) < 0

OkParse == /\ (R.zero => R.m = <<>>)
           /\ (~R.zero /\ R.inrange => Nearest(FromDigits(R.digits), R.scale, FromDigits(R.m), R.e))
           /\ (R.hassu /\ R.suinrange => Nearest(FromDigits(R.su), R.scale, FromDigits(R.sum), R.sue))
OkFormat == /\ R.rc = 0
            /\ Rendered(FromDigits(R.digits), R.scale, FromDigits(R.m), R.e)
            /\ (R.hassu => Rendered(FromDigits(R.su), R.scale, FromDigits(R.sum), R.sue))
            /\ R.roundtrip                                  \* the text parses back to the same digits, scale and su
            /\ (R.mode = "init" => R.scale = R.reqscale)
            \* cif_value_init_numb: scientific notation iff the scale is negative or plain notation would need more than
            \* max_leading_zeroes zeroes between the decimal point and the first significant digit (ndig decimal digits at
            \* this scale: the first one stands at place ndig - 1 - scale); values that round to zero are left open
            \* (zeros0: the count for the value as given; when rounding carries into a new decade the two counts differ and
            \* the documentation does not say which one is meant - left open)
            /\ ((R.mode = "init" /\ R.ndig > 0 /\ R.zeros0 = R.scale - R.ndig) => (R.sci <=> (R.reqscale < 0 \/ R.zeros0 > R.mlz)))
            /\ (R.mode = "auto" /\ R.hassu => /\ Cmp(FromDigits(R.su), FromInt(R.rule)) <= 0
                                              /\ ~FitsAtNextScale(FromDigits(R.sum), R.sue, R.scale, R.rule))
OkBig == /\ Mul(FromDigits(R.a), FromDigits(R.b)) = FromDigits(R.prod)
         /\ Add(FromDigits(R.a), FromDigits(R.b)) = FromDigits(R.sum)
         /\ Mul(Pow2(R.p2), Pow10(R.p10)) = FromDigits(R.pw)
         /\ Cmp(FromDigits(R.a), FromDigits(R.b)) = R.cmp
Ok == CASE R.t = "parse" -> OkParse [] R.t = "format" -> OkFormat [] R.t = "bignat" -> OkBig [] OTHER -> FALSE

TInit == l = 1 /\ str = <<>>
TNext == l <= Len(TraceLog) /\ (IF Ok THEN TRUE ELSE PrintT(<<"BREACH", l>>)) /\ l' = l + 1 /\ UNCHANGED str
TSpec == TInit /\ [][TNext]_<<str, l>>
NotAccepted == l <= Len(TraceLog)
=============================================================================
