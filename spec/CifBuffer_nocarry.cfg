SPECIFICATION Spec
CONSTANTS
 MaxLen = 4
 CARRY = FALSE
INVARIANT ChunkingIndependence
CHECK_DEADLOCK FALSE
