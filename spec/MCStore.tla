------------------------------- MODULE MCStore -------------------------------
EXTENDS CifStore
\* spelling semantics of the small universes used for model checking; tools/vcheck maps the tokens to concrete
\* Unicode spellings with the same semantics (several concretisations per run)
MCNormC(s) == CASE s = "A" -> "a" [] s = "B" -> "b" [] OTHER -> s
MCValidC(s) == s \notin {"bad", "NULL"}
MCNormN(s) == CASE s = "_X" -> "_x" [] s = "_Y" -> "_y" [] OTHER -> s
MCValidN(s) == s \notin {"bad", "NULL"}
NoScript == <<>>
\* documents for parse_into (CifStore.ParseR); NoDocs switches the action off
NoDocs == <<>>
MCDocs == << << [code |-> "a", items |-> << <<"_x", "s1">> >>] >>,                                          \* one block, one item
             << [code |-> "A", items |-> << <<"_X", "s3">>, <<"_y", "s1">> >>] >>,                           \* other spellings of the same block / item
             << [code |-> "b", items |-> << <<"_x", "s1">>, <<"_X", "s3">> >>], [code |-> "a", items |-> <<>>] >>,   \* duplicate inside the document; an empty block
             << [code |-> "a", items |-> << <<"_y", "s3">> >>, loop |-> [names |-> <<"_X", "_z">>, rows |-> << <<"s1", "s3">>, <<"s3", "s1">> >>]] >>,
             \* save frames: one frame holding the same name as its block; the frame code repeated in another spelling (reopened)
             << [code |-> "a", items |-> << <<"_x", "s3">> >>, frames |-> << [code |-> "a", items |-> << <<"_x", "s1">> >>] >>] >>,
             << [code |-> "A", items |-> <<>>, frames |-> << [code |-> "b", items |-> << <<"_y", "s1">> >>], [code |-> "B", items |-> << <<"_Y", "s3">>, <<"_x", "s3">> >>] >>] >> >>   \* a two-packet loop; _X may collide with an existing _x
\* a block with a two-item loop of three packets and one scalar; handles h1 (block), l1 (the loop), l2 (the scalar loop)
ScriptLoop == << [op |-> "cif_create", cif |-> "c1"],
                 [op |-> "create_block", cif |-> "c1", code |-> "a"],
                 [op |-> "create_loop", cont |-> "h1", category |-> "k", names |-> <<"_x", "_y">>],
                 [op |-> "loop_add_packet", loop |-> "l1", packet |-> << <<"_x", "s1">>, <<"_y", "s2">> >>],
                 [op |-> "loop_add_packet", loop |-> "l1", packet |-> << <<"_x", "s2">> >>],
                 [op |-> "loop_add_packet", loop |-> "l1", packet |-> << <<"_y", "s1">>, <<"_x", "s1">> >>],
                 [op |-> "set_value", cont |-> "h1", name |-> "_z", v |-> "s1"],
                 [op |-> "get_item_loop", cont |-> "h1", name |-> "_z"] >>
\* as ScriptLoop with a single packet
ScriptLoop1 == << [op |-> "cif_create", cif |-> "c1"],
                 [op |-> "create_block", cif |-> "c1", code |-> "a"],
                 [op |-> "create_loop", cont |-> "h1", category |-> "k", names |-> <<"_x", "_y">>],
                 [op |-> "loop_add_packet", loop |-> "l1", packet |-> << <<"_x", "s1">>, <<"_y", "s2">> >>],
                 [op |-> "set_value", cont |-> "h1", name |-> "_z", v |-> "s1"],
                 [op |-> "get_item_loop", cont |-> "h1", name |-> "_z"] >>
\* a block with a nested frame, a loop in each, for cascade / isolation checks
ScriptNest == << [op |-> "cif_create", cif |-> "c1"],
                 [op |-> "create_block", cif |-> "c1", code |-> "a"],
                 [op |-> "create_frame", cont |-> "h1", code |-> "b"],
                 [op |-> "set_value", cont |-> "h2", name |-> "_x", v |-> "s1"],
                 [op |-> "container_free", cont |-> "h2"],
                 [op |-> "create_loop", cont |-> "h1", category |-> "k", names |-> <<"_x">>],
                 [op |-> "loop_add_packet", loop |-> "l1", packet |-> << <<"_x", "s2">> >>] >>
\* ScriptLoop1 with an iterator opened on the scalar loop l2: l1 is then "another loop of the same CIF"
ScriptBusy == ScriptLoop1 \o << [op |-> "get_packets", loop |-> "l2"] >>
\* ... and with the iterator on the two-item loop l1 (one packet), l2 being the other loop
ScriptBusy1 == ScriptLoop1 \o << [op |-> "get_packets", loop |-> "l1"] >>
\* two blocks whose loops carry the same per-container loop number: an empty loop in a, a one-packet loop in b
\* (anything keyed by loop number alone would confuse the two)
ScriptTwin == << [op |-> "cif_create", cif |-> "c1"],
                 [op |-> "create_block", cif |-> "c1", code |-> "a"],
                 [op |-> "create_block", cif |-> "c1", code |-> "b"],
                 [op |-> "create_loop", cont |-> "h1", category |-> "k", names |-> <<"_x">>],
                 [op |-> "create_loop", cont |-> "h2", category |-> "k", names |-> <<"_x">>],
                 [op |-> "loop_add_packet", loop |-> "l2", packet |-> << <<"_x", "s1">> >>] >>
\* a one-item loop WITHOUT a category (NULL) holding two packets, for "remove a packet, then add one"
ScriptLoopN == << [op |-> "cif_create", cif |-> "c1"],
                  [op |-> "create_block", cif |-> "c1", code |-> "a"],
                  [op |-> "create_loop", cont |-> "h1", category |-> "NULL", names |-> <<"_x">>],
                  [op |-> "loop_add_packet", loop |-> "l1", packet |-> << <<"_x", "s1">> >>],
                  [op |-> "loop_add_packet", loop |-> "l1", packet |-> << <<"_x", "s2">> >>] >>
\* two blocks that number their loops differently: in a the scalar _x is loop 0 and the one-packet loop (_y) is loop 1; in
\* b the scalar _y is loop 0 and the empty loop (_x) is loop 1.  A statement that selects a loop's items by loop number
\* alone picks up names of the other block
ScriptCross == << [op |-> "cif_create", cif |-> "c1"],
                  [op |-> "create_block", cif |-> "c1", code |-> "a"],
                  [op |-> "create_block", cif |-> "c1", code |-> "b"],
                  [op |-> "set_value", cont |-> "h1", name |-> "_x", v |-> "s1"],
                  [op |-> "create_loop", cont |-> "h1", category |-> "k", names |-> <<"_y">>],
                  [op |-> "loop_add_packet", loop |-> "l1", packet |-> << <<"_y", "s1">> >>],
                  [op |-> "set_value", cont |-> "h2", name |-> "_y", v |-> "s1"],
                  [op |-> "create_loop", cont |-> "h2", category |-> "k", names |-> <<"_x">>] >>
\* a scalar loop that lost its only packet (items left, row counter kept) next to an ordinary loop with an open iterator:
\* a container-level call that fails part-way in there has a partial effect to undo inside the iterator's transaction
ScriptStuckBusy == << [op |-> "cif_create", cif |-> "c1"],
                      [op |-> "create_block", cif |-> "c1", code |-> "a"],
                      [op |-> "create_loop", cont |-> "h1", category |-> "", names |-> <<"_x", "_y">>],
                      [op |-> "loop_add_packet", loop |-> "l1", packet |-> << <<"_x", "s1">> >>],
                      [op |-> "remove_item", cont |-> "h1", name |-> "_x"],
                      [op |-> "loop_free", loop |-> "l1"],
                      [op |-> "create_loop", cont |-> "h1", category |-> "k", names |-> <<"_z">>],
                      [op |-> "loop_add_packet", loop |-> "l1", packet |-> << <<"_z", "s1">> >>],
                      [op |-> "get_packets", loop |-> "l1"] >>
\* an open iterator over the three-packet loop l1 that has delivered its first packet and has just refused an update (the
\* packet carries an item of another loop): what is changed through the iterator afterwards is as permanent after close, and
\* as void after abort, as if the refusal had not happened
ScriptRefused == ScriptLoop \o << [op |-> "get_packets", loop |-> "l1"],
                                  [op |-> "itr_next", itr |-> "c1"],
                                  [op |-> "itr_update", itr |-> "c1", packet |-> << <<"_z", "s1">> >>] >>
MCCSlots2 == <<"h1", "h2">>
MCLSlots2 == <<"l1", "l2">>
MCCSlots1 == <<"h1">>
MCLSlots1 == <<"l1">>
MCCSlots3 == <<"h1", "h2", "h3">>
=============================================================================
