------------------------------- MODULE CifWalk -------------------------------
(***************************************************************************)
(* cif_walk() (src/cif.c) over a constant CIF tree with a scripted         *)
(* handler: the k-th callback invocation is answered by script[k].         *)
(*                                                                         *)
(* The operators Walk, WalkContainer, WalkLoops, WalkLoop, WalkPacket,     *)
(* WalkItem mirror the C functions of the same names one to one.  A        *)
(* callback beyond the end of the script is answered NEED, which behaves   *)
(* like an error code (it stops everything and is returned), so that       *)
(* Walk(script) evaluated on a partial script tells whether the walk needs *)
(* another answer.  TLC's state is the script; Next appends one answer     *)
(* while the walk is unfinished: the reachable states are exactly the      *)
(* prefixes of all handler programs, the terminal states all programs.     *)
(*                                                                         *)
(* Two modes:                                                              *)
(*   OBS = <<>>  implementation-shaped and deterministic; used to generate *)
(*               behaviours that are replayed into the library;            *)
(*   OBS # <<>>  acceptor for an observed callback log (property-shaped):  *)
(*               answers are taken from OBS, and wherever the property     *)
(*               leaves a choice (the end callback of an element skipped   *)
(*               at its start callback, the end callback of a parent whose *)
(*               children were cut short by SKIP_SIBLINGS) the observation *)
(*               decides.  The log is accepted iff Walk reproduces it.     *)
(***************************************************************************)
EXTENDS Integers, Sequences, FiniteSets, TLC, Json

CONSTANTS Tree,      \* [id, blocks: Seq(Container)]; Container = [id, frames, loops]; Loop = [id, packets]; Packet = [id, items]
          Answers,   \* handler answers explored: 0 continue, -1 skip current, -2 skip siblings, -3 end, > 0 error codes
          OBS,       \* observed log: Seq([cb, id, r]) or <<>>
          OBSRC,     \* observed return code of cif_walk (acceptor mode)
          MaxLen     \* bound on script length (generation)

VARIABLE script

CONT == 0   SKIPC == -1   SKIPS == -2   END == -3
NEED == 99
EMPTY_LOOP == 36
Directive(r) == r \in {CONT, SKIPC, SKIPS, END}

Acceptor == OBS # <<>>

\* answer of the handler to the callback that would be number Len(log)+1
AnswerAt(k) == IF Acceptor THEN (IF k <= Len(OBS) THEN OBS[k].r ELSE NEED)
               ELSE (IF k <= Len(script) THEN script[k] ELSE NEED)

Cb(kind, id, log) == LET r == AnswerAt(Len(log) + 1)
                     IN [log |-> Append(log, [cb |-> kind, id |-> id, r |-> r]), res |-> r]

\* In acceptor mode: does the observation deliver callback (kind, id) next?
ObservedNext(kind, id, log) == Acceptor /\ Len(log) < Len(OBS) /\ OBS[Len(log) + 1].cb = kind /\ OBS[Len(log) + 1].id = id

-----------------------------------------------------------------------------
WalkItem(id, log) == Cb("item", id, log)

RECURSIVE WalkItemsFrom(_, _, _)
WalkItemsFrom(p, i, log) ==
    IF i > Len(p.items)
    THEN Cb("packet_end", p.id, log)
    ELSE LET r == WalkItem(p.items[i], log)
         IN IF r.res \in {CONT, SKIPC} THEN WalkItemsFrom(p, i + 1, r.log)
            ELSE IF r.res = SKIPS
                 THEN \* the remaining items are skipped; the implementation does not deliver packet_end either
                      IF ObservedNext("packet_end", p.id, r.log) THEN Cb("packet_end", p.id, r.log)
                      ELSE [log |-> r.log, res |-> CONT]
            ELSE r

WalkPacket(p, log) ==
    LET r == Cb("packet_start", p.id, log)
    IN IF r.res = CONT THEN WalkItemsFrom(p, 1, r.log)
       ELSE IF r.res \in {SKIPC, SKIPS} /\ ObservedNext("packet_end", p.id, r.log)
            THEN LET e == Cb("packet_end", p.id, r.log)      \* lenient: the skipped packet's end callback
                 IN IF e.res = CONT \/ e.res = SKIPC THEN [log |-> e.log, res |-> r.res] ELSE e
       ELSE r

RECURSIVE WalkPacketsFrom(_, _, _)
WalkPacketsFrom(l, i, log) ==
    IF i > Len(l.packets)
    THEN Cb("loop_end", l.id, log)
    ELSE LET r == WalkPacket(l.packets[i], log)
         IN IF r.res \in {CONT, SKIPC} THEN WalkPacketsFrom(l, i + 1, r.log)
            ELSE IF r.res = SKIPS
                 THEN IF ObservedNext("loop_end", l.id, r.log) THEN Cb("loop_end", l.id, r.log)
                      ELSE [log |-> r.log, res |-> CONT]
            ELSE r

WalkLoop(l, log) ==
    LET r == Cb("loop_start", l.id, log)
    IN IF r.res = CONT
       THEN IF Len(l.packets) = 0 THEN [log |-> r.log, res |-> EMPTY_LOOP]   \* packet-less loops are outside the property
            ELSE WalkPacketsFrom(l, 1, r.log)
       ELSE IF r.res \in {SKIPC, SKIPS} /\ ObservedNext("loop_end", l.id, r.log)
            THEN LET e == Cb("loop_end", l.id, r.log)
                 IN IF e.res = CONT \/ e.res = SKIPC THEN [log |-> e.log, res |-> r.res] ELSE e
       ELSE r

\* walk_loops(): CONTINUE / SKIP_CURRENT go on to the next loop, everything else stops and is returned
RECURSIVE WalkLoopsFrom(_, _, _, _)
WalkLoopsFrom(c, i, log, last) ==
    IF i > Len(c.loops) THEN [log |-> log, res |-> last]
    ELSE LET r == WalkLoop(c.loops[i], log)
         IN IF r.res \in {CONT, SKIPC} THEN WalkLoopsFrom(c, i + 1, r.log, r.res)
            ELSE r

RECURSIVE WalkContainer(_, _, _)
\* frames i.. of container c; returns [log, res, loopsToo]
RECURSIVE WalkFramesFrom(_, _, _, _)
WalkFramesFrom(c, depth, i, log) ==
    IF i > Len(c.frames) THEN [log |-> log, res |-> CONT, loopsToo |-> TRUE]
    ELSE LET r == WalkContainer(c.frames[i], depth + 1, log)
         IN IF r.res \in {CONT, SKIPC} THEN WalkFramesFrom(c, depth, i + 1, r.log)
            ELSE IF r.res = SKIPS THEN [log |-> r.log, res |-> SKIPS, loopsToo |-> TRUE]   \* loops are not siblings of frames
            ELSE [log |-> r.log, res |-> r.res, loopsToo |-> FALSE]

WalkContainer(c, depth, log) ==
    LET startk == IF depth = 0 THEN "block_start" ELSE "frame_start"
        endk == IF depth = 0 THEN "block_end" ELSE "frame_end"
        r == Cb(startk, c.id, log)
    IN IF r.res = CONT
       THEN LET f == WalkFramesFrom(c, depth, 1, r.log)
            IN IF ~f.loopsToo THEN [log |-> f.log, res |-> f.res]
               ELSE LET l == WalkLoopsFrom(c, 1, f.log, CONT)
                    IN IF l.res \in {CONT, SKIPC} THEN Cb(endk, c.id, l.log)
                       ELSE IF l.res = SKIPS
                            THEN IF ObservedNext(endk, c.id, l.log) THEN Cb(endk, c.id, l.log)
                                 ELSE [log |-> l.log, res |-> CONT]
                       ELSE l
       ELSE IF r.res \in {SKIPC, SKIPS} /\ ObservedNext(endk, c.id, r.log)
            THEN LET e == Cb(endk, c.id, r.log)
                 IN IF e.res = CONT \/ e.res = SKIPC THEN [log |-> e.log, res |-> r.res] ELSE e
       ELSE r

\* blocks i.. ; returns [log, res, normal]  (normal: the end of the block list was reached)
RECURSIVE WalkBlocksFrom(_, _)
WalkBlocksFrom(i, log) ==
    IF i > Len(Tree.blocks) THEN [log |-> log, res |-> CONT, normal |-> TRUE]
    ELSE LET r == WalkContainer(Tree.blocks[i], 0, log)
         IN IF r.res \in {CONT, SKIPC} THEN WalkBlocksFrom(i + 1, r.log)
            ELSE IF r.res \in {SKIPS, END} THEN [log |-> r.log, res |-> CONT, normal |-> FALSE]
            ELSE [log |-> r.log, res |-> r.res, normal |-> FALSE]

\* cif_walk(): [log, rc]
Walk ==
    LET r == Cb("cif_start", Tree.id, <<>>)
    IN IF r.res = CONT
       THEN LET b == WalkBlocksFrom(1, r.log)
            IN IF b.normal
               THEN LET e == Cb("cif_end", Tree.id, b.log)
                    IN [log |-> e.log, rc |-> IF Directive(e.res) THEN 0 ELSE e.res]
               ELSE IF b.res = CONT /\ ObservedNext("cif_end", Tree.id, b.log)
                    THEN LET e == Cb("cif_end", Tree.id, b.log) IN [log |-> e.log, rc |-> IF Directive(e.res) THEN 0 ELSE e.res]
               ELSE [log |-> b.log, rc |-> b.res]
       ELSE IF Directive(r.res) THEN [log |-> r.log, rc |-> 0]
       ELSE [log |-> r.log, rc |-> r.res]

-----------------------------------------------------------------------------
Init == script = <<>>
Unfinished == Walk.rc = NEED
Next == /\ ~Acceptor /\ Unfinished /\ Len(script) < MaxLen
        /\ \E a \in Answers : script' = Append(script, a)
Spec == Init /\ [][Next]_script

\* ---- the property (C14), evaluated by TLC on every finished handler program ----
W == Walk
Ids(log, kinds) == {log[i].id : i \in {j \in 1..Len(log) : log[j].cb \in kinds}}
Count(log, kind, id) == Cardinality({i \in 1..Len(log) : log[i].cb = kind /\ log[i].id = id})
Pos(log, kind, id) == CHOOSE i \in 1..Len(log) : log[i].cb = kind /\ log[i].id = id

\* all elements of the tree, by kind
RECURSIVE ContsOf(_)
ContsOf(c) == {c} \cup UNION {ContsOf(c.frames[i]) : i \in 1..Len(c.frames)}
AllConts == UNION {ContsOf(Tree.blocks[i]) : i \in 1..Len(Tree.blocks)}
AllLoops == UNION {{c.loops[i] : i \in 1..Len(c.loops)} : c \in AllConts}
AllPackets == UNION {{l.packets[i] : i \in 1..Len(l.packets)} : l \in AllLoops}
AllItems == UNION {{p.items[i] : i \in 1..Len(p.items)} : p \in AllPackets}
BlockIds == {Tree.blocks[i].id : i \in 1..Len(Tree.blocks)}

AtMostOnce == LET log == W.log IN \A i, j \in 1..Len(log) : (log[i].cb = log[j].cb /\ log[i].id = log[j].id) => i = j

AllContinue == \A i \in 1..Len(script) : script[i] = CONT
\* with handlers that always continue every element is presented exactly once, in the documented order, and rc = CIF_OK
ContinueVisitsAll ==
    (~Unfinished /\ AllContinue /\ \A l \in AllLoops : Len(l.packets) > 0) =>
        LET log == W.log IN
        /\ W.rc = 0
        /\ Count(log, "cif_start", Tree.id) = 1 /\ Count(log, "cif_end", Tree.id) = 1
        /\ \A c \in AllConts : LET sk == IF c.id \in BlockIds THEN "block_start" ELSE "frame_start"
                                   ek == IF c.id \in BlockIds THEN "block_end" ELSE "frame_end"
                               IN /\ Count(log, sk, c.id) = 1 /\ Count(log, ek, c.id) = 1
                                  /\ Pos(log, sk, c.id) < Pos(log, ek, c.id)
                                  \* children between start and end; frames before loops
                                  /\ \A i \in 1..Len(c.frames) : /\ Pos(log, sk, c.id) < Pos(log, "frame_start", c.frames[i].id)
                                                                 /\ Pos(log, "frame_end", c.frames[i].id) < Pos(log, ek, c.id)
                                                                 /\ \A j \in 1..Len(c.loops) : Pos(log, "frame_end", c.frames[i].id) < Pos(log, "loop_start", c.loops[j].id)
                                  /\ \A j \in 1..Len(c.loops) : /\ Pos(log, sk, c.id) < Pos(log, "loop_start", c.loops[j].id)
                                                                /\ Pos(log, "loop_end", c.loops[j].id) < Pos(log, ek, c.id)
        /\ \A l \in AllLoops : /\ Count(log, "loop_start", l.id) = 1 /\ Count(log, "loop_end", l.id) = 1
                               /\ \A i \in 1..Len(l.packets) : /\ Pos(log, "loop_start", l.id) < Pos(log, "packet_start", l.packets[i].id)
                                                               /\ Pos(log, "packet_end", l.packets[i].id) < Pos(log, "loop_end", l.id)
        /\ \A p \in AllPackets : /\ Count(log, "packet_start", p.id) = 1 /\ Count(log, "packet_end", p.id) = 1
                                 /\ \A i \in 1..Len(p.items) : /\ Count(log, "item", p.items[i]) = 1
                                                               /\ Pos(log, "packet_start", p.id) < Pos(log, "item", p.items[i])
                                                               /\ Pos(log, "item", p.items[i]) < Pos(log, "packet_end", p.id)

\* END and errors: nothing follows; END gives CIF_OK, a positive code is returned unchanged
StopIsFinal == LET log == W.log IN
               \A i \in 1..Len(log) : (log[i].r = END \/ (log[i].r > 0 /\ log[i].r # NEED)) =>
                    /\ i = Len(log)
                    /\ W.rc = IF log[i].r = END THEN 0 ELSE log[i].r
\* a walk that is never stopped returns CIF_OK
DirectivesGiveOK == (~Unfinished /\ \A i \in 1..Len(W.log) : Directive(W.log[i].r) /\ \A l \in AllLoops : Len(l.packets) > 0) => W.rc = 0

\* descendants of an element (ids), used for the skip rules
RECURSIVE DescOfCont(_)
DescOfCont(c) == UNION {{c.frames[i].id} \cup DescOfCont(c.frames[i]) : i \in 1..Len(c.frames)}
                 \cup UNION {{c.loops[i].id} \cup UNION {{c.loops[i].packets[j].id} \cup {c.loops[i].packets[j].items[k] : k \in 1..Len(c.loops[i].packets[j].items)}
                                                         : j \in 1..Len(c.loops[i].packets)} : i \in 1..Len(c.loops)}
DescOfLoop(l) == UNION {{l.packets[j].id} \cup {l.packets[j].items[k] : k \in 1..Len(l.packets[j].items)} : j \in 1..Len(l.packets)}
DescOfPacket(p) == {p.items[k] : k \in 1..Len(p.items)}
StartKinds == {"cif_start", "block_start", "frame_start", "loop_start", "packet_start"}
AllIds == {c.id : c \in AllConts} \cup {l.id : l \in AllLoops} \cup {p.id : p \in AllPackets} \cup AllItems
DescOf(kind, id) == IF kind = "cif_start" THEN AllIds
                    ELSE IF kind \in {"block_start", "frame_start"} THEN DescOfCont(CHOOSE c \in AllConts : c.id = id)
                    ELSE IF kind = "loop_start" THEN DescOfLoop(CHOOSE l \in AllLoops : l.id = id)
                    ELSE IF kind = "packet_start" THEN DescOfPacket(CHOOSE p \in AllPackets : p.id = id)
                    ELSE {}
\* a skip answered at a start callback suppresses every callback for the element's descendants
SkipSuppressesDescendants ==
    LET log == W.log IN
    \A i \in 1..Len(log) : (log[i].cb \in StartKinds /\ log[i].r \in {SKIPC, SKIPS}) =>
        \A j \in 1..Len(log) : log[j].id \notin DescOf(log[i].cb, log[i].id)


\* ---- nothing else is suppressed: every callback that is missing from a walk that was never stopped is accounted for by
\* a skip directive (descendant of an element skipped at its start; a later sibling, or its subtree, of an element one of
\* whose callbacks answered SKIP_SIBLINGS), or is one of the end callbacks the property leaves open
SubC(c) == {c.id} \cup DescOfCont(c)
SubL(l) == {l.id} \cup DescOfLoop(l)
SubP(p) == {p.id} \cup DescOfPacket(p)
SkS(log, id) == \E k \in 1..Len(log) : log[k].id = id /\ log[k].r = SKIPS
LaterSiblingsExcused(log) ==
    UNION {SubC(Tree.blocks[j]) : j \in {j2 \in 1..Len(Tree.blocks) : \E i \in 1..(j2 - 1) : SkS(log, Tree.blocks[i].id)}}
    \cup UNION {UNION {SubC(c.frames[j]) : j \in {j2 \in 1..Len(c.frames) : \E i \in 1..(j2 - 1) : SkS(log, c.frames[i].id)}} : c \in AllConts}
    \cup UNION {UNION {SubL(c.loops[j]) : j \in {j2 \in 1..Len(c.loops) : \E i \in 1..(j2 - 1) : SkS(log, c.loops[i].id)}} : c \in AllConts}
    \cup UNION {UNION {SubP(l.packets[j]) : j \in {j2 \in 1..Len(l.packets) : \E i \in 1..(j2 - 1) : SkS(log, l.packets[i].id)}} : l \in AllLoops}
    \cup UNION {{p.items[j] : j \in {j2 \in 1..Len(p.items) : \E i \in 1..(j2 - 1) : SkS(log, p.items[i])}} : p \in AllPackets}
SkippedAtStart(log) == {log[k].id : k \in {k2 \in 1..Len(log) : log[k2].cb \in StartKinds /\ log[k2].r \in {SKIPC, SKIPS}}}
DescExcused(log) == UNION {DescOf(log[k].cb, log[k].id) : k \in {k2 \in 1..Len(log) : log[k2].cb \in StartKinds /\ log[k2].r \in {SKIPC, SKIPS}}}
\* parents one of whose direct children answered SKIP_SIBLINGS: their end callback may be omitted
ParentOfSkS(log) ==
    {c.id : c \in {c2 \in AllConts : \E i \in 1..Len(c2.frames) : SkS(log, c2.frames[i].id)}}
    \cup {c.id : c \in {c2 \in AllConts : \E i \in 1..Len(c2.loops) : SkS(log, c2.loops[i].id)}}
    \cup {l.id : l \in {l2 \in AllLoops : \E i \in 1..Len(l2.packets) : SkS(log, l2.packets[i].id)}}
    \cup {p.id : p \in {p2 \in AllPackets : \E i \in 1..Len(p2.items) : SkS(log, p2.items[i])}}
    \cup (IF \E i \in 1..Len(Tree.blocks) : SkS(log, Tree.blocks[i].id) THEN {Tree.id} ELSE {})
EndKinds == {"cif_end", "block_end", "frame_end", "loop_end", "packet_end"}
AllCallbacks ==
    {<<"cif_start", Tree.id>>, <<"cif_end", Tree.id>>}
    \cup {<<IF c.id \in BlockIds THEN "block_start" ELSE "frame_start", c.id>> : c \in AllConts}
    \cup {<<IF c.id \in BlockIds THEN "block_end" ELSE "frame_end", c.id>> : c \in AllConts}
    \cup {<<"loop_start", l.id>> : l \in AllLoops} \cup {<<"loop_end", l.id>> : l \in AllLoops}
    \cup {<<"packet_start", p.id>> : p \in AllPackets} \cup {<<"packet_end", p.id>> : p \in AllPackets}
    \cup {<<"item", it>> : it \in AllItems}
NothingElseSuppressed ==
    LET log == W.log IN
    (~Unfinished /\ (\A k \in 1..Len(log) : Directive(log[k].r) /\ log[k].r # END) /\ \A l \in AllLoops : Len(l.packets) > 0) =>
        \A cb \in AllCallbacks :
            \/ Count(log, cb[1], cb[2]) = 1
            \/ cb[2] \in DescExcused(log) \cup LaterSiblingsExcused(log)
            \/ (cb[1] \in EndKinds /\ cb[2] \in SkippedAtStart(log) \cup ParentOfSkS(log))
\* and conversely a later sibling of an element that answered SKIP_SIBLINGS is never visited afterwards
SkipSiblingsSuppressesLater ==
    LET log == W.log IN
    \A k \in 1..Len(log) : log[k].r = SKIPS =>
        \A j \in (k + 1)..Len(log) : log[j].id \notin LaterSiblingsExcused(SubSeq(log, 1, k))

Properties == /\ AtMostOnce /\ ContinueVisitsAll /\ StopIsFinal /\ DirectivesGiveOK /\ SkipSuppressesDescendants
              /\ NothingElseSuppressed /\ SkipSiblingsSuppressesLater

\* ---- emission ----
EmitDone == (~Acceptor /\ (~Unfinished \/ Len(script) >= MaxLen)) =>
                PrintT(<<"WALK", ToJson([script |-> script, log |-> W.log, rc |-> W.rc, done |-> ~Unfinished])>>)
\* acceptor verdict
Accepted == W.log = OBS /\ W.rc = OBSRC
EmitVerdict == Acceptor => PrintT(<<"VERDICT", ToJson([accepted |-> Accepted, log |-> W.log, rc |-> W.rc])>>)
=============================================================================
