---------------------------- MODULE CifRoundTrip ----------------------------
(***************************************************************************)
(* C02 / C13: what cif_write() owes its caller, as a monitor over recorded *)
(* cases.  Each record describes one managed CIF (content projected from   *)
(* the library's storage), the result of cif_write, facts about the bytes  *)
(* written, and the content obtained by re-parsing them:                   *)
(*   [ver, orig, rc, head, utf8, maxline, cif11, rrc, rerrs, re,           *)
(*    must, mayrefuse, expr11]                                             *)
(* Content: [blocks: Seq(Container)]                                       *)
(* Container: [code, items: Seq([name, v]), loops: Seq([names, packets]),  *)
(*             frames: Seq(Container)]   (codes and names normalised)      *)
(* Value: [k |-> "char"|"numb", t, q] | [k |-> "unk"] | [k |-> "na"]       *)
(*        | [k |-> "list", e: Seq(Value)] | [k |-> "table", e: Seq(<<key, Value>>)] *)
(* must / mayrefuse / expr11 are character-level facts about the names and *)
(* strings (only CIF 2.0 characters and no CR; a table key no quoted form   *)
(* can present; everything within the CIF 1.1 character set and no string  *)
(* with newline-semicolon) computed by the driver; everything structural   *)
(* (equivalence, packets as multisets, list / table presence, the contract *)
(* itself) is evaluated here by TLC, one record per step.                  *)
(***************************************************************************)
EXTENDS Naturals, Sequences, FiniteSets, TLC, Json, IOUtils

TraceLog == ndJsonDeserialize(IOEnv.TRACE)
VARIABLE l

Range(s) == {s[i] : i \in 1..Len(s)}
Bag(s) == [x \in Range(s) |-> Cardinality({i \in 1..Len(s) : s[i] = x})]

\* canonical form of a value under the equivalence of the property: a number and an unquoted string with the same text
\* are the same value; an unquoted string beginning with a semicolon may come back quoted
RECURSIVE Canon(_)
Canon(v) == CASE v.k = "numb" -> [k |-> "char", t |-> v.t, q |-> v.q]
              [] v.k = "char" -> IF v.q = 0 /\ Len(v.t) > 0 /\ SubSeq(v.t, 1, 1) = ";" THEN [k |-> "char", t |-> v.t, q |-> 1] ELSE [k |-> "char", t |-> v.t, q |-> v.q]
              [] v.k = "list" -> [k |-> "list", e |-> [i \in 1..Len(v.e) |-> Canon(v.e[i])]]
              [] v.k = "table" -> [k |-> "table", e |-> {<<v.e[i][1], Canon(v.e[i][2])>> : i \in 1..Len(v.e)}]
              [] OTHER -> [k |-> v.k]
RECURSIVE CanonC(_)
CanonC(c) == [code |-> c.code,
              items |-> {<<c.items[i].name, Canon(c.items[i].v)>> : i \in 1..Len(c.items)},
              loops |-> {[names |-> Range(c.loops[i].names),
                          packets |-> Bag([p \in 1..Len(c.loops[i].packets) |->
                                             {<<c.loops[i].names[j], Canon(c.loops[i].packets[p][j])>> : j \in 1..Len(c.loops[i].names)}])]
                         : i \in 1..Len(c.loops)},
              frames |-> {CanonC(c.frames[i]) : i \in 1..Len(c.frames)}]
Equiv(a, b) == {CanonC(a.blocks[i]) : i \in 1..Len(a.blocks)} = {CanonC(b.blocks[i]) : i \in 1..Len(b.blocks)}

RECURSIVE HasComposite(_)
HasComposite(v) == v.k \in {"list", "table"}
RECURSIVE ContHasComposite(_)
ContHasComposite(c) == \/ \E i \in 1..Len(c.items) : HasComposite(c.items[i].v)
                       \/ \E i \in 1..Len(c.loops) : \E p \in 1..Len(c.loops[i].packets) : \E j \in 1..Len(c.loops[i].packets[p]) : HasComposite(c.loops[i].packets[p][j])
                       \/ \E i \in 1..Len(c.frames) : ContHasComposite(c.frames[i])
AnyComposite(x) == \E i \in 1..Len(x.blocks) : ContHasComposite(x.blocks[i])
RECURSIVE ContLoopsFilled(_)
ContLoopsFilled(c) == (\A i \in 1..Len(c.loops) : Len(c.loops[i].packets) >= 1) /\ (\A i \in 1..Len(c.frames) : ContLoopsFilled(c.frames[i]))
LoopsFilled(x) == \A i \in 1..Len(x.blocks) : ContLoopsFilled(x.blocks[i])

DISALLOWED_VALUE == 62   DISALLOWED_CHAR == 104
R == TraceLog[l]

\* ---- CIF 2.0 (C02) ----
Ok2 == /\ (R.rc = 0 => /\ R.head = "#\\#CIF_2.0" /\ R.utf8 = 1 /\ R.maxline <= 2048
                       /\ R.rrc = 0 /\ R.rerrs = 0
                       /\ Equiv(R.orig, R.re))
       /\ ((R.must /\ LoopsFilled(R.orig)) => (R.rc = 0 \/ (R.mayrefuse /\ R.rc = DISALLOWED_VALUE)))
\* ---- CIF 1.1 (C13) ----
Expressible11 == R.expr11 /\ ~AnyComposite(R.orig)
Ok1 == /\ (R.rc = 0 => /\ R.head = "#\\#CIF_1.1" /\ R.cif11 = 1 /\ R.maxline <= 2048
                       /\ R.rrc = 0 /\ R.rerrs = 0
                       /\ Equiv(R.orig, R.re))
       /\ (R.rc # 0 => R.rc \in {DISALLOWED_VALUE, DISALLOWED_CHAR} /\ ~Expressible11)
       /\ ((Expressible11 /\ LoopsFilled(R.orig)) => R.rc = 0)
Ok == IF R.ver = 1 THEN Ok1 ELSE Ok2

Init == l = 1
Next == /\ l <= Len(TraceLog)
        /\ (IF Ok THEN TRUE ELSE PrintT(<<"BREACH", l>>))
        /\ l' = l + 1
Spec == Init /\ [][Next]_l
NotAccepted == l <= Len(TraceLog)

\* ---- M1: the equivalence really is one, on a small universe of values (checked by a separate configuration) ----
SmallVals == {[k |-> "char", t |-> "a", q |-> 0], [k |-> "char", t |-> "a", q |-> 1], [k |-> "numb", t |-> "a", q |-> 0], [k |-> "char", t |-> ";a", q |-> 0],
              [k |-> "char", t |-> ";a", q |-> 1], [k |-> "unk"], [k |-> "na"], [k |-> "list", e |-> <<>>], [k |-> "list", e |-> <<[k |-> "numb", t |-> "a", q |-> 0]>>],
              [k |-> "list", e |-> <<[k |-> "char", t |-> "a", q |-> 0]>>], [k |-> "table", e |-> <<<<"k", [k |-> "unk"]>>>>]}
VEq(a, b) == Canon(a) = Canon(b)
EquivLaws == /\ \A a \in SmallVals : VEq(a, a)
             /\ \A a, b \in SmallVals : VEq(a, b) => VEq(b, a)
             /\ \A a, b, c \in SmallVals : (VEq(a, b) /\ VEq(b, c)) => VEq(a, c)
             /\ VEq([k |-> "numb", t |-> "a", q |-> 0], [k |-> "char", t |-> "a", q |-> 0])
             /\ ~VEq([k |-> "char", t |-> "a", q |-> 1], [k |-> "char", t |-> "a", q |-> 0])
             /\ ~VEq([k |-> "unk"], [k |-> "char", t |-> "?", q |-> 1])
=============================================================================
