-------------------------------- MODULE BigNat --------------------------------
(***************************************************************************)
(* Natural numbers of arbitrary size as little-endian sequences of limbs   *)
(* in base 10^4 (TLC's integers are 32-bit; a limb product stays below     *)
(* 10^8).  Loops are written with FoldLeft (evaluated iteratively by TLC's *)
(* Java override) because deep recursion overflows TLC's stack.            *)
(* Cross-checked against Python integers by tools/check_numb.py at run     *)
(* time (records of kind "bignat").                                        *)
(***************************************************************************)
EXTENDS Integers, Sequences, SequencesExt

BASE == 10000
Zero == <<>>
Iota(n) == [i \in 1..n |-> i]
MaxI(a, b) == IF a >= b THEN a ELSE b

\* drop high-order zero limbs
Norm(a) == LET nz == {i \in 1..Len(a) : a[i] # 0}
           IN IF nz = {} THEN <<>> ELSE SubSeq(a, 1, CHOOSE i \in nz : \A j \in nz : j <= i)
Limb(a, i) == IF i <= Len(a) THEN a[i] ELSE 0

FromInt(n) == Norm(<<n % BASE, (n \div BASE) % BASE, n \div (BASE * BASE)>>)      \* 0 <= n < 2^31
\* decimal digits, most significant first (as integers 0..9)
FromDigits(ds) == LET n == Len(ds)
                      k == (n + 3) \div 4
                      D(j) == IF j >= 1 /\ j <= n THEN ds[j] ELSE 0                 \* j counts from the left
                  IN Norm([i \in 1..k |-> LET hi == n - 4 * (i - 1) IN D(hi) + 10 * D(hi - 1) + 100 * D(hi - 2) + 1000 * D(hi - 3)])

Add(a, b) == LET n == MaxI(Len(a), Len(b))
                 r == FoldLeft(LAMBDA acc, i : LET s == Limb(a, i) + Limb(b, i) + acc.c IN [res |-> Append(acc.res, s % BASE), c |-> s \div BASE],
                               [res |-> <<>>, c |-> 0], Iota(n))
             IN Norm(IF r.c = 0 THEN r.res ELSE Append(r.res, r.c))
\* a - b for a >= b
Sub(a, b) == LET r == FoldLeft(LAMBDA acc, i : LET s == Limb(a, i) - Limb(b, i) - acc.c IN [res |-> Append(acc.res, IF s < 0 THEN s + BASE ELSE s), c |-> IF s < 0 THEN 1 ELSE 0],
                               [res |-> <<>>, c |-> 0], Iota(Len(a)))
             IN Norm(r.res)
\* -1, 0, 1
Cmp(a0, b0) == LET a == Norm(a0)  b == Norm(b0) IN
               IF Len(a) # Len(b) THEN (IF Len(a) < Len(b) THEN -1 ELSE 1)
               ELSE FoldLeft(LAMBDA acc, i : LET j == Len(a) + 1 - i IN IF acc # 0 THEN acc ELSE IF a[j] < b[j] THEN -1 ELSE IF a[j] > b[j] THEN 1 ELSE 0, 0, Iota(Len(a)))
Leq(a, b) == Cmp(a, b) <= 0
AbsDiff(a, b) == IF Cmp(a, b) >= 0 THEN Sub(a, b) ELSE Sub(b, a)

MulSmall(a, k) == LET r == FoldLeft(LAMBDA acc, i : LET s == a[i] * k + acc.c IN [res |-> Append(acc.res, s % BASE), c |-> s \div BASE],
                                    [res |-> <<>>, c |-> 0], Iota(Len(a)))       \* 0 <= k < BASE
                  IN Norm(IF r.c = 0 THEN r.res ELSE Append(r.res, r.c))
ShiftLimbs(a, n) == IF a = <<>> THEN <<>> ELSE [i \in 1..n |-> 0] \o a
Mul(a, b) == FoldLeft(LAMBDA acc, j : Add(acc, ShiftLimbs(MulSmall(a, b[j]), j - 1)), <<>>, Iota(Len(b)))

Pow10(k) == ShiftLimbs(<<CASE k % 4 = 0 -> 1 [] k % 4 = 1 -> 10 [] k % 4 = 2 -> 100 [] OTHER -> 1000>>, k \div 4)
Pow2(k) == LET big == FoldLeft(LAMBDA acc, i : MulSmall(acc, 4096), <<1>>, Iota(k \div 12))
           IN FoldLeft(LAMBDA acc, i : MulSmall(acc, 2), big, Iota(k % 12))
IsEven(a) == a = <<>> \/ a[1] % 2 = 0
=============================================================================
