------------------------------ MODULE CifLedger ------------------------------
(***************************************************************************)
(* C16: the ledger of objects the caller owns, the process-wide            *)
(* environment, and the outcome of every execution.                        *)
(*                                                                         *)
(* The documented ownership rules (cif.h, @page resource_mgmt) say which   *)
(* calls hand an object to the caller (a managed CIF, a container or loop  *)
(* handle, a packet iterator, a packet, a value) and that each is given    *)
(* back with exactly one documented release call.  The state of this       *)
(* module is what a correct caller has to keep track of:                   *)
(*                                                                         *)
(*   owned     the objects handed out and not yet released                 *)
(*   lastLive  bytes allocated (by anybody) when the ledger was last empty *)
(*   base      lastLive remembered at a "base" mark                        *)
(*                                                                         *)
(* It is a trace specification: harness/cifrun (ledger mode) records, for  *)
(* every call of every history the other properties' drivers execute, the  *)
(* objects that entered and left the caller's hands, whether the numeric   *)
(* locale / rounding mode differ after the call, the leak-checker's        *)
(* verdict and the live byte count whenever everything has been released,  *)
(* and how the process ended.  TLC walks the whole log (non-blocking       *)
(* monitor: a breach is printed and the walk continues).                   *)
(*                                                                         *)
(* What TLA+ does not do here: decide that an access is out of bounds or   *)
(* undefined.  Those are made observable by ASan / UBSan, which end the    *)
(* process; the log then lacks the normal "end" and carries the report's   *)
(* site.  The sanitizers are in the trusted base of this check.            *)
(***************************************************************************)
EXTENDS Integers, Sequences, FiniteSets, TLC, Json, IOUtils

VARIABLES l, owned, lastLive, base

TraceLog == ndJsonDeserialize(IOEnv.TRACE)
vars == <<l, owned, lastLive, base>>

ToSet(s) == {s[i] : i \in 1..Len(s)}

\* ---------------------------------------------------------------- the rules, event by event
\* a call: objects handed out are new to the caller, objects released were owned, the environment is as before
CallOk(e) == /\ ToSet(e.a) \cap owned = {}
             /\ ToSet(e.r) \subseteq owned
             /\ e.env = 0
\* everything given back (the harness releases all it still holds, then destroys its CIFs):
\* nothing the library allocated may be unreachable, and the ledger is empty
ResetOk(e) == /\ CallOk(e)
              /\ (owned \ ToSet(e.r)) \cup ToSet(e.a) = {}
              /\ e.leak = 0
\* the same history executed again must not need more memory than the time before (caches are warm by then)
ProbeOk == base < 0 \/ lastLive <= base
\* the process ended by itself; a sanitizer report, a signal or a missing return ends it otherwise
EndOk(e) == e.out \in {"normal", "timeout"}

EventOk(e) == CASE e.e = "call" -> CallOk(e)
                [] e.e = "reset" -> ResetOk(e)
                [] e.e = "mark" -> (e.m # "probe" \/ ProbeOk)
                [] e.e = "end" -> EndOk(e)
                [] OTHER -> FALSE

Init == l = 1 /\ owned = {} /\ lastLive = -1 /\ base = -1
Next == /\ l <= Len(TraceLog)
        /\ LET e == TraceLog[l]
           IN /\ IF EventOk(e) THEN TRUE ELSE PrintT(<<"BREACH", l>>)
              /\ owned' = CASE e.e \in {"call", "reset"} -> (owned \ ToSet(e.r)) \cup ToSet(e.a)
                            [] e.e = "end" -> {}
                            [] OTHER -> owned
              /\ lastLive' = IF e.e = "reset" THEN e.live ELSE IF e.e = "end" THEN -1 ELSE lastLive
              /\ base' = CASE e.e = "mark" /\ e.m = "base" -> lastLive
                           [] e.e = "end" -> -1
                           [] OTHER -> base
        /\ IF l = Len(TraceLog) THEN PrintT(<<"WALKED", l>>) ELSE TRUE
        /\ l' = l + 1
Spec == Init /\ [][Next]_vars
\* the driver accepts a run only if TLC printed WALKED for the last event (the whole log has been judged)
=============================================================================
