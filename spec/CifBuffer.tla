------------------------------ MODULE CifBuffer ------------------------------
(***************************************************************************)
(* C08: the character pipeline of the parser (src/parser.c get_first_char, *)
(* get_more_chars): the decoded character stream reaches the scanner in    *)
(* "fills" (one per 4096-byte read); every fill is folded separately:      *)
(* CR LF -> LF, bare CR -> LF.  The outcome must not depend on where the   *)
(* fills are cut.                                                          *)
(*                                                                         *)
(* FoldWhole is the reference (fold the entire stream at once).            *)
(* FoldFill / Pipeline transcribe the implementation: per-fill folding     *)
(* with the `cr_pending` flag carrying a trailing CR over to the next      *)
(* fill (whose leading LF is then dropped), and the first character being  *)
(* delivered on its own (get_first_char).                                  *)
(* TLC checks Pipeline(stream, cuts) = FoldWhole(stream) for every stream  *)
(* over {x, y, CR, LF} up to MaxLen and every set of cut positions, plus   *)
(* line counting.  The same statement is then tested on the real parser    *)
(* with production buffer sizes (tools/check_doc.py c08).                  *)
(***************************************************************************)
EXTENDS Naturals, Sequences, FiniteSets, TLC

CONSTANTS MaxLen, CARRY       \* CARRY = TRUE: implementation with the cr_pending flag; FALSE: the historical per-fill folding
VARIABLES stream, cuts
Alphabet == {"x", "y", "CR", "LF"}

RECURSIVE FoldWhole(_)
FoldWhole(s) == IF s = <<>> THEN <<>>
                ELSE IF s[1] = "CR" THEN IF Len(s) >= 2 /\ s[2] = "LF" THEN <<"LF">> \o FoldWhole(SubSeq(s, 3, Len(s)))
                                         ELSE <<"LF">> \o FoldWhole(Tail(s))
                ELSE <<s[1]>> \o FoldWhole(Tail(s))

\* one fill: fold what is inside the fill; a CR at the very end cannot see its LF
FoldFill(f) == FoldWhole(f)

\* the fills determined by a set of cut positions (a cut after position c); the first character is a fill of its own
RECURSIVE FillsOf(_, _, _)
FillsOf(s, from, cs) == IF from > Len(s) THEN <<>>
                        ELSE LET nxt == {c \in cs : c >= from}
                                 to == IF nxt = {} THEN Len(s) ELSE CHOOSE c \in nxt : \A d \in nxt : c <= d
                             IN <<SubSeq(s, from, to)>> \o FillsOf(s, to + 1, cs)

\* process fills in order with the carry flag
RECURSIVE Feed(_, _)
Feed(fills, pending) ==
    IF fills = <<>> THEN <<>>
    ELSE LET f0 == fills[1]
             f == IF CARRY /\ pending /\ f0 # <<>> /\ f0[1] = "LF" THEN Tail(f0) ELSE f0
             endsCr == f0[Len(f0)] = "CR"
         IN FoldFill(f) \o Feed(Tail(fills), endsCr)

Pipeline(s, cs) == IF s = <<>> THEN <<>> ELSE Feed(FillsOf(s, 1, cs \cup {1}), FALSE)

Lines(s) == Cardinality({i \in 1..Len(s) : s[i] = "LF"})

Init == stream = <<>> /\ cuts = {}
Next == \/ /\ Len(stream) < MaxLen /\ cuts = {}
           /\ \E c \in Alphabet : stream' = Append(stream, c)
           /\ UNCHANGED cuts
        \/ /\ cuts = {} /\ Len(stream) >= 2
           /\ \E cs \in (SUBSET (1..(Len(stream) - 1))) \ {{}} : cuts' = cs
           /\ UNCHANGED stream
Spec == Init /\ [][Next]_<<stream, cuts>>

ChunkingIndependence == Pipeline(stream, cuts) = FoldWhole(stream)
LineCountIndependence == Lines(Pipeline(stream, cuts)) = Lines(FoldWhole(stream))
\* folding never leaves a CR and never loses or duplicates an ordinary character
NoCrLeft == \A i \in 1..Len(Pipeline(stream, cuts)) : Pipeline(stream, cuts)[i] # "CR"
Ordinary(s) == SelectSeq(s, LAMBDA c : c \in {"x", "y"})
OrdinaryPreserved == Ordinary(Pipeline(stream, cuts)) = Ordinary(stream)
=============================================================================
