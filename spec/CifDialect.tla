------------------------------ MODULE CifDialect ------------------------------
(***************************************************************************)
(* C11: which CIF version and which character encoding cif_parse() selects *)
(* - a decision table transcribed from the option documentation in cif.h   *)
(* (prefer_cif2, default_encoding_name, force_default_encoding), not from  *)
(* ciffile.c.  A cell is                                                   *)
(*   magic  : "none" | "v10" | "v11" | "v20" | "late" (2.0 comment not at  *)
(*            the very start)                                              *)
(*   bom    : "none" | "start" | "inner" (after the first line)            *)
(*   prefer : prefer_cif2                                                  *)
(*   enc    : the encoding the bytes are really in                         *)
(*   named  : default_encoding_name ("none" = NULL: system default)        *)
(*   force  : force_default_encoding                                       *)
(* TLC enumerates every cell (each is an initial state), checks that the   *)
(* table is total and deterministic and emits the outcome; the driver      *)
(* encodes probe documents per cell and compares the real parse.           *)
(***************************************************************************)
EXTENDS Integers, FiniteSets, TLC, Json

CONSTANTS MAGICS, BOMS, PREFERS, ENCS, NAMEDS, FORCES, SystemDefault
VARIABLE cell

UnicodeEncs == {"utf8", "utf16le", "utf16be", "utf32le", "utf32be"}
Cells == [magic : MAGICS, bom : BOMS, prefer : PREFERS, enc : ENCS, named : NAMEDS, force : FORCES]

\* ---- version (prefer_cif2 documentation)
Version(c) == IF c.prefer >= 20 THEN 2
              ELSE IF c.prefer < 0 THEN 1
              ELSE IF c.magic = "v20" THEN 2
              ELSE IF c.magic \in {"v10", "v11"} THEN 1
              ELSE (* no version comment at the very start *) IF c.prefer > 0 THEN 2 ELSE 1

\* ---- encoding (default_encoding_name / force_default_encoding documentation)
Default(c) == IF c.named = "none" THEN SystemDefault ELSE c.named
HasSignature(c) == c.bom = "start" /\ c.enc \in UnicodeEncs
Selected(c) == IF c.force = 1 THEN Default(c)
               ELSE IF HasSignature(c) THEN c.enc               \* a Unicode signature names the encoding
               ELSE IF Version(c) = 2 THEN "utf8"               \* CIF 2.0 is UTF-8
               ELSE Default(c)
\* is the document decoded with the encoding it is really in ?  (otherwise the outcome is garbage and not specified;
\* ASCII-only probes make latin1 and utf8 interchangeable, which the driver knows)
DecodedRight(c) == Selected(c) = c.enc

\* ---- diagnostics
WrongEncoding(c) == Version(c) = 2 /\ Selected(c) # "utf8"
\* a byte-order mark is a character of the text only where the decoder leaves it there: accepted as the very first
\* character in CIF 2.0, an error anywhere else in CIF 2.0
BomError(c) == c.bom = "inner" /\ Version(c) = 2

Outcome(c) == [version |-> Version(c), selected |-> Selected(c), right |-> DecodedRight(c), wrongenc |-> WrongEncoding(c), bomerr |-> BomError(c)]

Init == cell \in Cells
Next == UNCHANGED cell
Spec == Init /\ [][Next]_cell

\* totality / determinism: every cell has an outcome in range
Total == /\ Version(cell) \in {1, 2}
         /\ Selected(cell) \in ENCS \cup {SystemDefault} \cup NAMEDS
         /\ (cell.prefer >= 20 => Version(cell) = 2) /\ (cell.prefer < 0 => Version(cell) = 1)
         /\ (cell.force = 1 => Selected(cell) = Default(cell))
         /\ (WrongEncoding(cell) => Version(cell) = 2)
EmitCell == PrintT(<<"CELL", ToJson([c |-> cell, o |-> Outcome(cell)])>>)
=============================================================================
