------------------------------- MODULE CifDoc -------------------------------
(***************************************************************************)
(* A generator of well-formed CIF 2.0 / CIF 1.1 documents together with    *)
(* the content they denote (C01), and of documents with one planted defect *)
(* together with the documented diagnosis and recovery (C12).              *)
(*                                                                         *)
(* Text is a sequence of characters; a character is a one-character string *)
(* or one of the symbolic characters "<EOL>" (a line terminator: the       *)
(* renderer chooses LF, CR LF or CR), "<TAB>", "<U2>" "<U3>" "<U4>" (a     *)
(* 2-, 3-, 4-byte UTF-8 character).  The lexical rules of the two dialects *)
(* (which delimiters may present which string, how text fields are folded  *)
(* and prefixed) are written here, over characters; the renderer           *)
(* (tools/render.py) only encodes.                                         *)
(*                                                                         *)
(* A document is determined by a context (where the values sit), a         *)
(* sequence of slots [v, p, s] - value, presentation, separator before the *)
(* value - and a tail.  TLC's state is (ctx, slots, tail); every reachable *)
(* state with at least one slot is a complete document.                    *)
(***************************************************************************)
EXTENDS Integers, Sequences, FiniteSets, TLC, Json

CONSTANTS Dialect,     \* 2 or 1
          Palette,     \* function: value id -> text (sequence of characters)
          VIDS,        \* value ids used by this configuration
          PRES,        \* presentations used: "bare" "sq" "dq" "tsq" "tdq" "text" "textf" "textp" "textpf"
          SEPS,        \* separator ids used
          CONTEXTS,    \* contexts used
          TAILS,       \* what follows the last value
          NSlots       \* number of values per document

VARIABLES ctx, slots, tail
vars == <<ctx, slots, tail>>

EOL == "<EOL>"
WS == {" ", "<TAB>"}
NonAscii == {"<U2>", "<U3>", "<U4>"}

\* ---- sequences of characters ----
HasSub(t, sub) == \E i \in 1..(Len(t) - Len(sub) + 1) : SubSeq(t, i, i + Len(sub) - 1) = sub
Has(t, c) == \E i \in 1..Len(t) : t[i] = c
HasAny(t, S) == \E i \in 1..Len(t) : t[i] \in S
RECURSIVE Flatten(_)
Flatten(ss) == IF ss = <<>> THEN <<>> ELSE Head(ss) \o Flatten(Tail(ss))
\* positions of line terminators, and the lines of a text
EolPos(t) == {i \in 1..Len(t) : t[i] = EOL}
RECURSIVE LinesOf(_)
LinesOf(t) == IF EolPos(t) = {} THEN <<t>>
              ELSE LET i == CHOOSE j \in EolPos(t) : \A k \in EolPos(t) : j <= k
                   IN <<SubSeq(t, 1, i - 1)>> \o LinesOf(SubSeq(t, i + 1, Len(t)))
FirstLine(t) == LinesOf(t)[1]
LowerOf(c) == CASE c = "D" -> "d" [] c = "A" -> "a" [] c = "T" -> "t" [] c = "S" -> "s" [] c = "V" -> "v" [] c = "E" -> "e"
                [] c = "L" -> "l" [] c = "O" -> "o" [] c = "P" -> "p" [] c = "G" -> "g" [] c = "B" -> "b" [] OTHER -> c
Lower(t) == [i \in 1..Len(t) |-> LowerOf(t[i])]
StartsWith(t, p) == Len(t) >= Len(p) /\ SubSeq(t, 1, Len(p)) = p

\* ---- lexical rules ----
ReservedWord(t) == LET l == Lower(t)
                   IN \/ StartsWith(l, <<"d", "a", "t", "a", "_">>) \/ StartsWith(l, <<"s", "a", "v", "e", "_">>)
                      \/ l = <<"l", "o", "o", "p", "_">> \/ l = <<"s", "t", "o", "p", "_">>
                      \/ l = <<"g", "l", "o", "b", "a", "l", "_">>
Brackets == {"[", "]", "{", "}"}
\* may t stand whitespace-delimited ?  sol: the value would start at the beginning of a line
BareOK(t, sol) ==
    /\ t # <<>> /\ ~HasAny(t, WS \cup {EOL}) /\ ~ReservedWord(t)
    /\ IF Len(t) = 0 THEN FALSE
       ELSE /\ t[1] \notin {"_", "#", "$", "'", "\""} /\ ~(t[1] = ";" /\ sol)
            /\ IF Dialect = 2 THEN ~HasAny(t, Brackets)
               ELSE t[1] \notin {"[", "]"} /\ ~HasAny(t, NonAscii)
\* single-delimiter quoted strings: CIF 2.0 ends the string at the next delimiter; CIF 1.1 at the next delimiter that is
\* followed by whitespace
QuotedOK(t, d) ==
    /\ ~Has(t, EOL)
    /\ IF Dialect = 2 THEN ~Has(t, d)
       ELSE /\ ~HasAny(t, NonAscii)
            /\ \A i \in 1..(Len(t) - 1) : ~(t[i] = d /\ t[i + 1] \in WS)
TripleOK(t, d) == Dialect = 2 /\ ~HasSub(t, <<d, d, d>>) /\ (IF Len(t) = 0 THEN TRUE ELSE t[Len(t)] # d)
\* text fields.  In CIF 2.0 the first line of the content must not look like a fold / prefix signature
NoTextDelim(t) == ~HasSub(t, <<EOL, ";">>)
TextOK(t) == /\ NoTextDelim(t)
             /\ (Dialect = 2 => (IF Len(t) > 0 /\ t[1] = ";" THEN TRUE ELSE ~Has(FirstLine(t), "\\")))
             /\ (Dialect = 1 => ~HasAny(t, NonAscii))
\* the fold point of a line: after its first half, never before a semicolon (which would then start a physical line)
FoldAt(l) == IF Len(l) >= 2 /\ l[(Len(l) \div 2) + 1] # ";" THEN Len(l) \div 2 ELSE 0
FoldLine(l) == IF FoldAt(l) = 0 THEN l ELSE SubSeq(l, 1, FoldAt(l)) \o <<"\\", EOL>> \o SubSeq(l, FoldAt(l) + 1, Len(l))
RECURSIVE JoinLines(_)
JoinLines(ls) == IF Len(ls) = 1 THEN ls[1] ELSE ls[1] \o <<EOL>> \o JoinLines(Tail(ls))
Prefix == <<">", " ">>
FoldedOK(t) == Dialect = 2 /\ NoTextDelim(t) /\ ~Has(t, "\\") /\ \A i \in 1..Len(LinesOf(t)) : IF Len(LinesOf(t)[i]) = 0 THEN TRUE ELSE LinesOf(t)[i][1] # ";"
PrefixedOK(t) == Dialect = 2
PrefixedFoldedOK(t) == Dialect = 2 /\ ~Has(t, "\\")

Admissible(t, p, sol) ==
    CASE p = "bare" -> BareOK(t, sol)
      [] p = "sq" -> QuotedOK(t, "'")
      [] p = "dq" -> QuotedOK(t, "\"")
      [] p = "tsq" -> TripleOK(t, "'")
      [] p = "tdq" -> TripleOK(t, "\"")
      [] p = "text" -> sol /\ TextOK(t)
      [] p = "textf" -> sol /\ FoldedOK(t)
      [] p = "textp" -> sol /\ PrefixedOK(t)
      [] p = "textpf" -> sol /\ PrefixedFoldedOK(t)

\* concrete syntax of a presentation (text fields: the opening semicolon is at the start of a line because sol holds)
Present(t, p) ==
    CASE p = "bare" -> t
      [] p = "sq" -> <<"'">> \o t \o <<"'">>
      [] p = "dq" -> <<"\"">> \o t \o <<"\"">>
      [] p = "tsq" -> <<"'", "'", "'">> \o t \o <<"'", "'", "'">>
      [] p = "tdq" -> <<"\"", "\"", "\"">> \o t \o <<"\"", "\"", "\"">>
      [] p = "text" -> <<";">> \o t \o <<EOL, ";">>
      [] p = "textf" -> <<";", "\\", EOL>> \o JoinLines([i \in 1..Len(LinesOf(t)) |-> FoldLine(LinesOf(t)[i])]) \o <<EOL, ";">>
      [] p = "textp" -> <<";">> \o Prefix \o <<"\\", EOL>> \o JoinLines([i \in 1..Len(LinesOf(t)) |-> Prefix \o LinesOf(t)[i]]) \o <<EOL, ";">>
      [] p = "textpf" -> <<";">> \o Prefix \o <<"\\", "\\", EOL>>
                          \o JoinLines([i \in 1..Len(LinesOf(t)) |->
                                 LET l == LinesOf(t)[i] IN
                                 IF FoldAt(l) = 0 THEN Prefix \o l
                                 ELSE Prefix \o SubSeq(l, 1, FoldAt(l)) \o <<"\\", EOL>> \o Prefix \o SubSeq(l, FoldAt(l) + 1, Len(l))])
                          \o <<EOL, ";">>
IsTextField(p) == p \in {"text", "textf", "textp", "textpf"}

\* what a presented string denotes
Denote(t, p) ==
    IF p = "bare"
    THEN IF t = <<"?">> THEN [k |-> "unk"] ELSE IF t = <<".">> THEN [k |-> "na"]
         ELSE [k |-> "char", t |-> t, q |-> IF Dialect = 1 /\ HasAny(t, Brackets) THEN 1 ELSE 0]
    ELSE [k |-> "char", t |-> t, q |-> 1]

\* ---- separators ----
SepText(s) == CASE s = "sp" -> <<" ">> [] s = "tab" -> <<"<TAB>">> [] s = "eol" -> <<EOL>> [] s = "spsp" -> <<" ", " ">>
                [] s = "eolsp" -> <<EOL, " ">> [] s = "speol" -> <<" ", EOL>> [] s = "eoleol" -> <<EOL, EOL>>
                [] s = "cmt" -> <<" ", "#", "c", "'", EOL>> [] s = "cmteol" -> <<EOL, "#", " ", ";", EOL>>
                [] s = "none" -> <<>>
EndsAtSol(s) == s \in {"eol", "speol", "eoleol", "cmt", "cmteol"}

\* ---- documents ----
Magic == IF Dialect = 2 THEN <<"#", "\\", "#", "C", "I", "F", "_", "2", ".", "0", EOL>> ELSE <<"#", "\\", "#", "C", "I", "F", "_", "1", ".", "1", EOL>>
Str(s) == CASE s = "data_b" -> <<"d", "a", "t", "a", "_", "b">> [] s = "loop_" -> <<"l", "o", "o", "p", "_">>
            [] s = "save_f" -> <<"s", "a", "v", "e", "_", "f">> [] s = "save_" -> <<"s", "a", "v", "e", "_">>
Digit(i) == CASE i = 1 -> "1" [] i = 2 -> "2" [] i = 3 -> "3" [] i = 4 -> "4" [] OTHER -> "9"
Name(i) == <<"_", "n", Digit(i)>>
KeyText(i) == <<"k", Digit(i)>>
TailText(x) == CASE x = "eof" -> <<>> [] x = "eol" -> <<EOL>> [] x = "sp" -> <<" ">> [] x = "cmt" -> <<" ", "#", "x">> [] x = "cmteol" -> <<EOL, "#", EOL>>

SlotText(sl) == SepText(sl.s) \o Present(Palette[sl.v], sl.p)
SlotVal(sl) == Denote(Palette[sl.v], sl.p)
N == Len(slots)

\* [doc, content]; content = [items: seq of [name, v]] in block b (or frame f of block b), or one loop
DocOf ==
    CASE ctx = "scalars" ->
           [doc |-> Magic \o Str("data_b") \o Flatten([i \in 1..N |-> <<EOL>> \o Name(i) \o SlotText(slots[i])]) \o TailText(tail),
            shape |-> "items", items |-> [i \in 1..N |-> [name |-> Name(i), v |-> SlotVal(slots[i])]]]
      [] ctx = "frame" ->
           [doc |-> Magic \o Str("data_b") \o <<EOL>> \o Str("save_f")
                    \o Flatten([i \in 1..N |-> <<EOL>> \o Name(i) \o SlotText(slots[i])]) \o <<EOL>> \o Str("save_") \o TailText(tail),
            shape |-> "frameitems", items |-> [i \in 1..N |-> [name |-> Name(i), v |-> SlotVal(slots[i])]]]
      [] ctx = "loop1" ->
           [doc |-> Magic \o Str("data_b") \o <<EOL>> \o Str("loop_") \o <<" ">> \o Name(1)
                    \o Flatten([i \in 1..N |-> SlotText(slots[i])]) \o TailText(tail),
            shape |-> "loop", names |-> <<Name(1)>>, packets |-> [i \in 1..N |-> <<SlotVal(slots[i])>>]]
      \* one-column loops whose consecutive packets are composite values with different members (the parser re-uses one
      \* value object per column): packet i is the table { 'k<i>': slot i } / the list [ slot i ]
      [] ctx = "looptable" ->
           [doc |-> Magic \o Str("data_b") \o <<EOL>> \o Str("loop_") \o <<" ">> \o Name(1)
                    \o Flatten([i \in 1..N |-> <<EOL, "{", "'">> \o KeyText(i) \o <<"'", ":">> \o SlotText(slots[i])
                                                \o (IF IsTextField(slots[i].p) THEN <<EOL>> ELSE <<>>) \o <<"}">>]) \o TailText(tail),
            shape |-> "loop", names |-> <<Name(1)>>, packets |-> [i \in 1..N |-> <<[k |-> "table", e |-> << <<KeyText(i), SlotVal(slots[i])>> >>]>>]]
      [] ctx = "looplist" ->
           [doc |-> Magic \o Str("data_b") \o <<EOL>> \o Str("loop_") \o <<" ">> \o Name(1)
                    \o Flatten([i \in 1..N |-> <<EOL, "[">> \o SlotText(slots[i])
                                                \o (IF IsTextField(slots[i].p) THEN <<EOL>> ELSE <<>>) \o <<"]">>]) \o TailText(tail),
            shape |-> "loop", names |-> <<Name(1)>>, packets |-> [i \in 1..N |-> <<[k |-> "list", e |-> <<SlotVal(slots[i])>>]>>]]
      [] ctx = "list" ->
           [doc |-> Magic \o Str("data_b") \o <<EOL>> \o Name(1) \o <<" ", "[">> \o Flatten([i \in 1..N |-> SlotText(slots[i])])
                    \o (IF IsTextField(slots[N].p) THEN <<EOL>> ELSE <<>>) \o <<"]">> \o TailText(tail),
            shape |-> "items", items |-> <<[name |-> Name(1), v |-> [k |-> "list", e |-> [i \in 1..N |-> SlotVal(slots[i])]]]>>]
      [] ctx = "table" ->
           [doc |-> Magic \o Str("data_b") \o <<EOL>> \o Name(1) \o <<" ", "{">>
                    \o Flatten([i \in 1..N |-> (IF i = 1 THEN <<>> ELSE <<" ">>) \o <<"'">> \o KeyText(i) \o <<"'", ":">> \o SlotText(slots[i])])
                    \o (IF IsTextField(slots[N].p) THEN <<EOL>> ELSE <<>>) \o <<"}">> \o TailText(tail),
            shape |-> "items", items |-> <<[name |-> Name(1), v |-> [k |-> "table", e |-> [i \in 1..N |-> <<KeyText(i), SlotVal(slots[i])>>]]]>>]
      [] ctx = "listinlist" ->
           [doc |-> Magic \o Str("data_b") \o <<EOL>> \o Name(1) \o <<" ", "[", "[">> \o Flatten([i \in 1..N |-> SlotText(slots[i])])
                    \o (IF IsTextField(slots[N].p) THEN <<EOL>> ELSE <<>>) \o <<"]", " ", "[", "]", "]">> \o TailText(tail),
            shape |-> "items", items |-> <<[name |-> Name(1), v |-> [k |-> "list", e |-> <<[k |-> "list", e |-> [i \in 1..N |-> SlotVal(slots[i])]], [k |-> "list", e |-> <<>>]>>]]>>]

\* where a separator may be empty: directly after an opening bracket / brace / key colon
MayBeEmptySep(i) == (ctx \in {"list", "listinlist"} /\ i = 1) \/ ctx \in {"table", "looptable", "looplist"}
\* the previous thing ends a token that needs whitespace after it: anything but an opening delimiter / key colon
SlotOK(v, p, s, i) ==
    /\ (s = "none" => MayBeEmptySep(i))
    /\ Admissible(Palette[v], p, EndsAtSol(s))
    \* a text field can only be followed by whitespace: fine in every context here (EOL or separator follows)
    \* table keys are followed directly by the value: a bare value directly after the colon is allowed

Init == ctx \in CONTEXTS /\ slots = <<>> /\ tail \in TAILS
Next == /\ N < NSlots
        /\ \E v \in VIDS, p \in PRES, s \in SEPS :
              /\ SlotOK(v, p, s, N + 1)
              /\ slots' = Append(slots, [v |-> v, p |-> p, s |-> s])
        /\ UNCHANGED <<ctx, tail>>
Spec == Init /\ [][Next]_vars

\* the tail must keep the document well formed: after a bare / quoted value at end of input nothing is needed
TailOK == TRUE

\* ---- generator invariants (M1) ----
\* no physical line is longer than the limit (all our documents are short), the document ends the last token properly
Complete == N >= 1
LineLengthOK == Complete => \A i \in 1..Len(LinesOf(DocOf.doc)) : Len(LinesOf(DocOf.doc)[i]) <= 2048
\* a presentation is only used where the lexical rules admit it (by construction of Next; restated as an invariant)
AllAdmissible == \A i \in 1..N : Admissible(Palette[slots[i].v], slots[i].p, EndsAtSol(slots[i].s))
\* decoding the text-field protocols gives the text back (the specification's own encoders are consistent):
\* unfolding removes backslash-EOL pairs, de-prefixing removes the prefix of every line
RECURSIVE Unfold(_)
Unfold(t) == IF Len(t) < 2 THEN t
             ELSE IF t[1] = "\\" /\ t[2] = EOL THEN Unfold(SubSeq(t, 3, Len(t)))
             ELSE <<t[1]>> \o Unfold(Tail(t))
Deprefix(t) == JoinLines([i \in 1..Len(LinesOf(t)) |-> SubSeq(LinesOf(t)[i], Len(Prefix) + 1, Len(LinesOf(t)[i]))])
Body(x) == SubSeq(x, 2, Len(x) - 2)                   \* between the opening semicolon and the closing EOL ;
AfterFirstLine(b) == LET i == CHOOSE j \in EolPos(b) : \A k \in EolPos(b) : j <= k IN SubSeq(b, i + 1, Len(b))
ProtocolsRoundTrip ==
    \A i \in 1..N : LET t == Palette[slots[i].v]  p == slots[i].p  x == Present(t, p) IN
        /\ (p = "textf" => Unfold(AfterFirstLine(Body(x))) = t)
        /\ (p = "textp" => Deprefix(AfterFirstLine(Body(x))) = t)
        /\ (p = "textpf" => Unfold(Deprefix(AfterFirstLine(Body(x)))) = t)
GenInvariant == LineLengthOK /\ AllAdmissible /\ ProtocolsRoundTrip

EmitDoc == Complete => PrintT(<<"DOC", ToJson([ctx |-> ctx, slots |-> slots, tail |-> tail, d |-> DocOf])>>)
=============================================================================
