------------------------------- MODULE CifNames -------------------------------
(***************************************************************************)
(* C09: validity of block codes, frame codes, data names and table keys as *)
(* predicates over code points, and the matching laws (case-folded         *)
(* canonical equivalence for codes and names, canonical equivalence for    *)
(* table keys).  The observations recorded from the library (one record    *)
(* per step) are judged here:                                              *)
(*   [t |-> "valid", use, cps, rc]    creating something named cps         *)
(*   [t |-> "pair", feq, ceq, normeq, idemx, idemy, found, dup, loopfound, *)
(*    pktfound, keyfound, keydup, ...] two spellings x, y with the oracle's *)
(*    verdicts feq (equal after NFD, case folding, NFC) and ceq (equal     *)
(*    after NFC) and what the library did with them                        *)
(* The oracle columns feq / ceq come from an independent implementation of *)
(* the Unicode algorithms (Python's unicodedata).                          *)
(***************************************************************************)
EXTENDS Integers, Sequences, FiniteSets, TLC, Json, IOUtils

TraceLog == ndJsonDeserialize(IOEnv.TRACE)
VARIABLE l
R == TraceLog[l]

\* ---- code point classes
Surrogate(c) == c >= 55296 /\ c <= 57343                       \* U+D800..U+DFFF (unpaired, as a code point of its own)
NonChar(c) == (c >= 64976 /\ c <= 65007) \/ (c % 65536 >= 65534)   \* U+FDD0..U+FDEF, U+xxFFFE, U+xxFFFF
Control(c) == (c < 32 /\ c \notin {9, 10, 13}) \/ c = 127
White(c) == c <= 32                                             \* what the validity rules call whitespace (includes TAB LF CR)
Disallowed(c) == Control(c) \/ NonChar(c) \/ Surrogate(c)
LineLimit == 2048

ValidCode(s) == Len(s) >= 1 /\ Len(s) <= LineLimit - 5 /\ \A i \in 1..Len(s) : ~White(s[i]) /\ ~Disallowed(s[i])
ValidName(s) == Len(s) >= 2 /\ s[1] = 95 /\ Len(s) <= LineLimit /\ \A i \in 1..Len(s) : ~White(s[i]) /\ ~Disallowed(s[i])
ValidKey(s) == \A i \in 1..Len(s) : ~Disallowed(s[i])            \* keys may be empty and may contain whitespace

INVALID_BLOCKCODE == 12  INVALID_FRAMECODE == 22  INVALID_ITEMNAME == 42  INVALID_INDEX == 73
ExpectedRc(use, s) == CASE use = "block" -> IF ValidCode(s) THEN 0 ELSE INVALID_BLOCKCODE
                        [] use = "frame" -> IF ValidCode(s) THEN 0 ELSE INVALID_FRAMECODE
                        [] use \in {"loop", "scalar", "additem", "pktcreate", "pktset"} -> IF ValidName(s) THEN 0 ELSE INVALID_ITEMNAME
                        [] use = "key" -> IF ValidKey(s) THEN 0 ELSE INVALID_INDEX

OkValid == R.rc = ExpectedRc(R.use, R.cps)
\* matching laws for a pair of spellings (both valid)
OkPair == /\ (R.ceq => R.feq)                                 \* the oracle itself: canonical equivalence refines the folded one
          /\ (R.normeq <=> R.feq)                             \* cif_normalize agrees exactly on equivalent inputs
          /\ R.idemx /\ R.idemy                               \* and is idempotent
          /\ (R.found <=> R.feq) /\ (R.dup <=> R.feq)         \* block created under x: found / duplicate under y
          /\ (R.ffound <=> R.feq) /\ (R.fdup <=> R.feq)       \* frame
          /\ (R.ifound <=> R.feq) /\ (R.idup <=> R.feq)       \* data name in a container
          /\ (R.pfound <=> R.feq)                             \* packet item
          /\ (R.kfound <=> R.ceq)                             \* table key: canonical equivalence only
          /\ (R.ceq => R.kspell)                              \* ... enumerated in the spelling used last
          /\ (R.kcfound <=> R.ceq) /\ R.kcself /\ (R.kpfound <=> R.ceq)    \* ... also in a clone of the table and in a packet's copy
          \* the parser applies the same equivalence to what it reads: exactly one duplicate diagnosis for equivalent
          \* spellings (two scalars, two names of one loop header, two block headers, two save frames), none otherwise
          /\ (IF R.feq THEN R.psdup /\ R.pldup /\ R.pbdup /\ R.pfdup ELSE R.psnone /\ R.plnone /\ R.pbnone /\ R.pfnone)
Ok == IF R.t = "valid" THEN OkValid ELSE OkPair

Init == l = 1
Next == l <= Len(TraceLog) /\ (IF Ok THEN TRUE ELSE PrintT(<<"BREACH", l>>)) /\ l' = l + 1
Spec == Init /\ [][Next]_l
NotAccepted == l <= Len(TraceLog)

\* ---- M1: the classes partition the code space at the stated boundaries (evaluated once, thorough tier)
Boundaries == {0, 9, 11, 13, 14, 32, 33, 127, 128, 55296, 57344, 64976, 65008} \cup {p * 65536 + 65534 : p \in 0..16} \cup {p * 65536 : p \in 1..16}
ClassOf(c) == <<Control(c), NonChar(c), Surrogate(c), White(c)>>
PartitionOK == \A c \in 1..1114111 : (c \notin Boundaries) => ClassOf(c) = ClassOf(c - 1)
=============================================================================
