------------------------------ MODULE CifDefect ------------------------------
(***************************************************************************)
(* C12: documents that are well formed except for ONE planted defect of a  *)
(* documented class, with the diagnosis (first error code, line window)    *)
(* and the content the documented recovery action (parser.c, @page         *)
(* error_recovery) prescribes.                                             *)
(*                                                                         *)
(* A document is  magic, data_b, host items 1..p, the defective fragment,  *)
(* host items p+1..N  - host items are CifDoc slots (value, presentation,  *)
(* separator), so the defect is met after / before every kind of token.    *)
(* Fragments that change the container that follows are planted last.      *)
(***************************************************************************)
EXTENDS CifDoc

CONSTANTS DEFECTS     \* defect classes used by the configuration
VARIABLES defect, pos
dvars == <<ctx, slots, tail, defect, pos>>

C1(a) == <<a>>
Wd(s) == CASE s = "_d1" -> <<"_", "d", "1">> [] s = "_d2" -> <<"_", "d", "2">> [] s = "_d3" -> <<"_", "d", "3">>
           [] s = "data_" -> <<"d", "a", "t", "a", "_">> [] s = "stop_" -> <<"s", "t", "o", "p", "_">>
           [] s = "global_" -> <<"g", "l", "o", "b", "a", "l", "_">> [] s = "data_B" -> <<"d", "a", "t", "a", "_", "B">>
           [] s = "data_c" -> <<"d", "a", "t", "a", "_", "c">> [] s = "save_g" -> <<"s", "a", "v", "e", "_", "g">>
           [] s = "save_G" -> <<"s", "a", "v", "e", "_", "G">>
           [] OTHER -> Str(s)
Ch(t) == [k |-> "char", t |-> t, q |-> 1]
Bare(t) == [k |-> "char", t |-> t, q |-> 0]
Unk == [k |-> "unk"]
It(n, v) == [name |-> n, v |-> v]
Sp == <<" ">>
Q(t) == <<"'">> \o t \o <<"'">>
NoFrag == [items |-> <<>>, loops |-> <<>>, frames |-> <<>>, blocks |-> <<>>, lastonly |-> FALSE, needs1 |-> FALSE, anon |-> <<>>, extra |-> 0, alt |-> "none"]
F(text, code) == [NoFrag EXCEPT !.items = <<>>] @@ [text |-> text, code |-> code]
LongLine(n) == <<"#">> \o [i \in 1..(n - 1) |-> "x"]
\* a line of n CHARACTERS of which 1200 lie outside the BMP (two UTF-16 code units each): the limit counts characters
LongLineU(n) == <<"#">> \o [i \in 1..(n - 1) |-> IF i <= 1200 THEN "<U4>" ELSE "x"]

\* text: the fragment (it starts on a fresh line); code: the first error code; items / loops / frames: what the recovery
\* contributes to block b; blocks: further blocks; lastonly: must be planted after all host items; needs1: needs host item 1
\* before it; extra: further lines the diagnosis may be delayed by; alt: an alternative admissible outcome
Fragment(d) ==
    CASE d = "missing_value" -> [F(Wd("_d1"), 133) EXCEPT !.items = <<It(Wd("_d1"), Unk)>>]
      [] d = "missing_value_loop" -> [F(Wd("_d1") \o <<EOL>> \o Wd("loop_") \o Sp \o Wd("_d2") \o Sp \o C1("1"), 133)
                                       EXCEPT !.items = <<It(Wd("_d1"), Unk)>>, !.loops = <<[names |-> <<Wd("_d2")>>, packets |-> <<<<Bare(C1("1"))>>>>]>>]
      [] d = "missing_value_table" -> [F(Wd("_d1") \o Sp \o <<"{">> \o Q(C1("k")) \o <<":", "}">>, 133)
                                        EXCEPT !.items = <<It(Wd("_d1"), [k |-> "table", e |-> <<<<C1("k"), Unk>>>>])>>]
      [] d = "dup_scalar" -> [F(Name(1) \o Sp \o Q(<<"d", "u", "p">>), 41) EXCEPT !.needs1 = TRUE]
      [] d = "dup_scalar_case" -> [F(<<"_", "N", "1">> \o Sp \o C1("7"), 41) EXCEPT !.needs1 = TRUE]
      [] d = "dup_loop_stored" -> [F(Wd("loop_") \o Sp \o Name(1) \o Sp \o Wd("_d2") \o <<EOL>> \o C1("1") \o Sp \o C1("2") \o Sp \o C1("3") \o Sp \o C1("4"), 41)
                                    EXCEPT !.needs1 = TRUE, !.loops = <<[names |-> <<Wd("_d2")>>, packets |-> <<<<Bare(C1("2"))>>, <<Bare(C1("4"))>>>>]>>]
      [] d = "dup_loop_header" -> [F(Wd("loop_") \o Sp \o Wd("_d1") \o Sp \o Wd("_d2") \o Sp \o Wd("_d1") \o <<EOL>> \o C1("1") \o Sp \o C1("2") \o Sp \o C1("3"), 41)
                                    EXCEPT !.loops = <<[names |-> <<Wd("_d1"), Wd("_d2")>>, packets |-> <<<<Bare(C1("1")), Bare(C1("2"))>>>>]>>]
      \* ... the first occurrence spelled with capitals (names match by their normalised form whatever the order of spellings)
      [] d = "dup_loop_header_case" -> [F(Wd("loop_") \o Sp \o <<"_", "D", "1">> \o Sp \o Wd("_d2") \o Sp \o Wd("_d1") \o <<EOL>> \o C1("1") \o Sp \o C1("2") \o Sp \o C1("3"), 41)
                                          EXCEPT !.loops = <<[names |-> <<<<"_", "D", "1">>, Wd("_d2")>>, packets |-> <<<<Bare(C1("1")), Bare(C1("2"))>>>>]>>]
      \* a loop header ALL of whose names are duplicates: every column is parsed and dropped, no loop is made, parsing goes on
      [] d = "dup_loop_only" -> [F(Wd("loop_") \o Sp \o Name(1) \o <<EOL>> \o C1("1") \o Sp \o C1("2"), 41) EXCEPT !.needs1 = TRUE]
      [] d = "dup_loop_twice" -> [F(Wd("loop_") \o Sp \o Wd("_d1") \o Sp \o Wd("_d2") \o <<EOL>> \o C1("1") \o Sp \o C1("2") \o <<EOL>>
                                    \o Wd("loop_") \o Sp \o Wd("_d2") \o Sp \o Wd("_d1") \o <<EOL>> \o C1("3") \o Sp \o C1("4"), 41)
                                   EXCEPT !.loops = <<[names |-> <<Wd("_d1"), Wd("_d2")>>, packets |-> <<<<Bare(C1("1")), Bare(C1("2"))>>>>]>>]
      \* a scalar whose name is already that of a loop column (of two packets: the name has several values by then; of one)
      [] d = "dup_scalar_of_loop" -> [F(Wd("loop_") \o Sp \o Wd("_d1") \o Sp \o Wd("_d2") \o <<EOL>> \o C1("1") \o Sp \o C1("2") \o Sp \o C1("3") \o Sp \o C1("4")
                                         \o <<EOL>> \o Wd("_d1") \o Sp \o C1("5"), 41)
                                       EXCEPT !.loops = <<[names |-> <<Wd("_d1"), Wd("_d2")>>, packets |-> <<<<Bare(C1("1")), Bare(C1("2"))>>, <<Bare(C1("3")), Bare(C1("4"))>>>>]>>]
      [] d = "dup_scalar_of_loop1" -> [F(Wd("loop_") \o Sp \o Wd("_d1") \o Sp \o Wd("_d2") \o <<EOL>> \o C1("1") \o Sp \o C1("2")
                                          \o <<EOL>> \o <<"_", "D", "2">> \o Sp \o C1("5"), 41)
                                        EXCEPT !.loops = <<[names |-> <<Wd("_d1"), Wd("_d2")>>, packets |-> <<<<Bare(C1("1")), Bare(C1("2"))>>>>]>>]
      [] d = "dup_block" -> [F(Wd("data_B") \o <<EOL>> \o Wd("_d1") \o Sp \o C1("1"), 11) EXCEPT !.items = <<It(Wd("_d1"), Bare(C1("1")))>>, !.lastonly = TRUE]
      [] d = "dup_frame" -> [F(Wd("save_g") \o Sp \o Wd("_d1") \o Sp \o C1("1") \o Sp \o Wd("save_") \o <<EOL>> \o Wd("save_G") \o Sp \o Wd("_d2") \o Sp \o C1("2") \o Sp \o Wd("save_"), 21)
                              EXCEPT !.frames = <<[code |-> <<"g">>, items |-> <<It(Wd("_d1"), Bare(C1("1"))), It(Wd("_d2"), Bare(C1("2")))>>]>>]
      [] d = "partial_packet" -> [F(Wd("loop_") \o Sp \o Wd("_d1") \o Sp \o Wd("_d2") \o <<EOL>> \o C1("1") \o Sp \o C1("2") \o Sp \o C1("3"), 53)
                                   EXCEPT !.loops = <<[names |-> <<Wd("_d1"), Wd("_d2")>>, packets |-> <<<<Bare(C1("1")), Bare(C1("2"))>>, <<Bare(C1("3")), Unk>>>>]>>]
      [] d = "null_loop" -> [F(Wd("loop_"), 37) EXCEPT !.lastonly = TRUE]
      [] d = "null_loop_loop" -> [F(Wd("loop_") \o Sp \o Wd("loop_") \o Sp \o Wd("_d1") \o Sp \o C1("1"), 37)
                                   EXCEPT !.loops = <<[names |-> <<Wd("_d1")>>, packets |-> <<<<Bare(C1("1"))>>>>]>>]
      [] d = "empty_loop" -> [F(Wd("loop_") \o Sp \o Wd("_d1") \o Sp \o Wd("_d2"), 36) EXCEPT !.alt = "empty_loop_kept", !.lastonly = TRUE]
      [] d = "missing_endquote" -> [F(Wd("_d1") \o Sp \o <<"'", "a", " ", "b">>, 106) EXCEPT !.items = <<It(Wd("_d1"), Ch(<<"a", " ", "b">>))>>]
      [] d = "missing_endquote_dq" -> [F(Wd("_d1") \o Sp \o <<"\"", "a", "'">>, 106) EXCEPT !.items = <<It(Wd("_d1"), Ch(<<"a", "'">>))>>]
      [] d = "unclosed_text" -> [F(Wd("_d1") \o <<EOL, ";", "a", EOL, "b">>, 107) EXCEPT !.items = <<It(Wd("_d1"), Ch(<<"a", EOL, "b">>))>>, !.lastonly = TRUE]
      [] d = "unclosed_triple" -> [F(Wd("_d1") \o Sp \o <<"'", "'", "'", "a", EOL, "b", "'", "'">>, 107)
                                    EXCEPT !.items = <<It(Wd("_d1"), Ch(<<"a", EOL, "b", "'", "'">>))>>, !.lastonly = TRUE]
      [] d = "missing_space_qq" -> [F(Wd("loop_") \o Sp \o Wd("_d1") \o Sp \o Q(C1("a")) \o Q(C1("b")), 105)
                                     EXCEPT !.loops = <<[names |-> <<Wd("_d1")>>, packets |-> <<<<Ch(C1("a"))>>, <<Ch(C1("b"))>>>>]>>]
      [] d = "missing_space_qname" -> [F(Wd("_d1") \o Sp \o Q(C1("a")) \o Wd("_d2") \o Sp \o C1("2"), 105)
                                        EXCEPT !.items = <<It(Wd("_d1"), Ch(C1("a"))), It(Wd("_d2"), Bare(C1("2")))>>]
      [] d = "missing_space_list" -> [F(Wd("loop_") \o Sp \o Wd("_d1") \o Sp \o <<"[", "1", "]", "[", "2", "]">>, 105)
                                       EXCEPT !.loops = <<[names |-> <<Wd("_d1")>>, packets |-> <<<<[k |-> "list", e |-> <<Bare(C1("1"))>>]>>, <<[k |-> "list", e |-> <<Bare(C1("2"))>>]>>>>]>>]
      [] d = "stray_cbracket" -> [F(Wd("_d1") \o Sp \o C1("1") \o Sp \o C1("]"), 135) EXCEPT !.items = <<It(Wd("_d1"), Bare(C1("1")))>>]
      [] d = "stray_cbrace" -> [F(C1("}") \o Sp \o Wd("_d1") \o Sp \o C1("1"), 135) EXCEPT !.items = <<It(Wd("_d1"), Bare(C1("1")))>>]
      [] d = "missing_cbracket" -> [F(Wd("_d1") \o Sp \o <<"[", "1", " ", "2">>, 136) EXCEPT !.items = <<It(Wd("_d1"), [k |-> "list", e |-> <<Bare(C1("1")), Bare(C1("2"))>>])>>]
      [] d = "missing_cbrace" -> [F(Wd("_d1") \o Sp \o <<"{">> \o Q(C1("k")) \o <<":", "1">>, 136)
                                   EXCEPT !.items = <<It(Wd("_d1"), [k |-> "table", e |-> <<<<C1("k"), Bare(C1("1"))>>>>])>>]
      [] d = "missing_key" -> [F(Wd("_d1") \o Sp \o <<"{">> \o Q(C1("v")) \o Sp \o Q(C1("k")) \o <<":", "1", "}">>, 137)
                                EXCEPT !.items = <<It(Wd("_d1"), [k |-> "table", e |-> <<<<C1("k"), Bare(C1("1"))>>>>])>>]
      [] d = "missing_key_bare" -> [F(Wd("_d1") \o Sp \o <<"{", "v", " ">> \o Q(C1("k")) \o <<":", "1", "}">>, 137)
                                     EXCEPT !.items = <<It(Wd("_d1"), [k |-> "table", e |-> <<<<C1("k"), Bare(C1("1"))>>>>])>>]
      [] d = "null_key" -> [F(Wd("_d1") \o Sp \o <<"{", ":", "1", " ">> \o Q(C1("k")) \o <<":", "2", "}">>, 140)
                             EXCEPT !.items = <<It(Wd("_d1"), [k |-> "table", e |-> <<<<C1("k"), Bare(C1("2"))>>>>])>>]
      [] d = "unquoted_key" -> [F(Wd("_d1") \o Sp \o <<"{", "k", ":", "1", "}">>, 138)
                                 EXCEPT !.items = <<It(Wd("_d1"), [k |-> "table", e |-> <<<<C1("k"), Bare(C1("1"))>>>>])>>]
      \* the same defects with white space (or a line end) after the colon, a longer key, a quoted value, a lone bare word
      [] d = "unquoted_key_sp" -> [F(Wd("_d1") \o Sp \o <<"{", "k", ":", " ", "1", "}">>, 138)
                                    EXCEPT !.items = <<It(Wd("_d1"), [k |-> "table", e |-> <<<<C1("k"), Bare(C1("1"))>>>>])>>]
      [] d = "unquoted_key_eol" -> [F(Wd("_d1") \o Sp \o <<"{", "a", "b", ":", EOL, "1", "}">>, 138)
                                     EXCEPT !.items = <<It(Wd("_d1"), [k |-> "table", e |-> <<<<<<"a", "b">>, Bare(C1("1"))>>>>])>>]
      [] d = "unquoted_key_q" -> [F(Wd("_d1") \o Sp \o <<"{", "a", "b", ":">> \o Q(C1("x")) \o <<"}">>, 138)
                                   EXCEPT !.items = <<It(Wd("_d1"), [k |-> "table", e |-> <<<<<<"a", "b">>, Ch(C1("x"))>>>>])>>]
      [] d = "null_key_sp" -> [F(Wd("_d1") \o Sp \o <<"{", ":", " ", "1", " ">> \o Q(C1("k")) \o <<":", " ", "2", "}">>, 140)
                                EXCEPT !.items = <<It(Wd("_d1"), [k |-> "table", e |-> <<<<C1("k"), Bare(C1("2"))>>>>])>>]
      [] d = "missing_key_only" -> [F(Wd("_d1") \o Sp \o <<"{", "v", "}">>, 137)
                                     EXCEPT !.items = <<It(Wd("_d1"), [k |-> "table", e |-> <<>>])>>]
      [] d = "text_key" -> [F(Wd("_d1") \o Sp \o <<"{", EOL, ";", "k", EOL, ";", ":", "1", "}">>, 139)
                             EXCEPT !.items = <<It(Wd("_d1"), [k |-> "table", e |-> <<<<C1("k"), Bare(C1("1"))>>>>])>>]
      [] d = "reserved_data" -> F(Wd("data_"), 132)
      [] d = "reserved_stop" -> F(Wd("stop_"), 132)
      [] d = "reserved_global" -> F(Wd("global_"), 132)
      [] d = "unexpected_value" -> [F(Wd("_d1") \o Sp \o C1("1") \o Sp \o C1("2"), 134) EXCEPT !.items = <<It(Wd("_d1"), Bare(C1("1")))>>]
      [] d = "unexpected_value_q" -> [F(Q(C1("x")) \o Sp \o Wd("_d1") \o Sp \o C1("1"), 134) EXCEPT !.items = <<It(Wd("_d1"), Bare(C1("1")))>>]
      [] d = "unexpected_term" -> F(Wd("save_"), 124)
      [] d = "no_frame_term" -> [F(Wd("save_g") \o Sp \o Wd("_d1") \o Sp \o C1("1") \o <<EOL>> \o Wd("data_c") \o Sp \o Wd("_d2") \o Sp \o C1("2"), 123)
                                  EXCEPT !.frames = <<[code |-> <<"g">>, items |-> <<It(Wd("_d1"), Bare(C1("1")))>>]>>,
                                         !.blocks = <<[code |-> <<"c">>, items |-> <<It(Wd("_d2"), Bare(C1("2")))>>, loops |-> <<>>, frames |-> <<>>]>>, !.lastonly = TRUE]
      [] d = "nested_frame" -> [F(Wd("save_g") \o Sp \o Wd("_d1") \o Sp \o C1("1") \o <<EOL>> \o Wd("save_f") \o Sp \o Wd("_d2") \o Sp \o C1("2") \o Sp \o Wd("save_"), 123)
                                 EXCEPT !.frames = <<[code |-> <<"g">>, items |-> <<It(Wd("_d1"), Bare(C1("1")))>>], [code |-> <<"f">>, items |-> <<It(Wd("_d2"), Bare(C1("2")))>>]>>]
      [] d = "eof_in_frame" -> [F(Wd("save_g") \o Sp \o Wd("_d1") \o Sp \o C1("1"), 126)
                                 EXCEPT !.frames = <<[code |-> <<"g">>, items |-> <<It(Wd("_d1"), Bare(C1("1")))>>]>>, !.lastonly = TRUE]
      [] d = "overlength" -> [F(LongLine(2049), 108) EXCEPT !.extra = 0]
      [] d = "maxlength" -> F(LongLine(2048), 0)
      \* ordinary values that merely look like reserved words (only data_* and save_* are reserved as prefixes): no defect
      [] d = "lookalike_stop" -> [F(Wd("_d1") \o Sp \o <<"s", "t", "o", "p", "_", "c", "o", "d", "o", "n">>, 0) EXCEPT !.items = <<It(Wd("_d1"), Bare(<<"s", "t", "o", "p", "_", "c", "o", "d", "o", "n">>))>>]
      [] d = "lookalike_loop" -> [F(Wd("_d1") \o Sp \o <<"l", "o", "o", "p", "_", "x">>, 0) EXCEPT !.items = <<It(Wd("_d1"), Bare(<<"l", "o", "o", "p", "_", "x">>))>>]
      [] d = "lookalike_global" -> [F(Wd("_d1") \o Sp \o <<"G", "L", "O", "B", "A", "L", "_", "1">>, 0) EXCEPT !.items = <<It(Wd("_d1"), Bare(<<"G", "L", "O", "B", "A", "L", "_", "1">>))>>]
      [] d = "lookalike_qmark" -> [F(Wd("_d1") \o Sp \o <<"?", "a", "b", "c">>, 0) EXCEPT !.items = <<It(Wd("_d1"), Bare(<<"?", "a", "b", "c">>))>>]
      [] d = "overlength_u4" -> [F(LongLineU(2049), 108) EXCEPT !.extra = 0]
      [] d = "maxlength_u4" -> F(LongLineU(2048), 0)
      [] d = "long_u4_value" -> [F(Wd("_d1") \o Sp \o Q([i \in 1..1100 |-> "<U4>"]), 0) EXCEPT !.items = <<It(Wd("_d1"), Ch([i \in 1..1100 |-> "<U4>"]))>>]
      [] d = "disallowed_char" -> [F(Wd("_d1") \o Sp \o <<"'", "a", "<C1>", "b", "'">>, 104) EXCEPT !.items = <<It(Wd("_d1"), Ch(<<"a", "<C1>", "b">>))>>]
      [] d = "disallowed_char_cmt" -> F(<<"#", "<C1>">>, 104)
      [] d = "disallowed_del" -> [F(Wd("_d1") \o Sp \o <<"a", "<DEL>">>, 104) EXCEPT !.items = <<It(Wd("_d1"), Bare(<<"a", "<DEL>">>))>>]
      [] d = "no_block_header" -> [F(Wd("_d1") \o Sp \o C1("1"), 113) EXCEPT !.anon = <<It(Wd("_d1"), Bare(C1("1")))>>]

LastOnly == {"dup_block", "null_loop", "empty_loop", "unclosed_text", "unclosed_triple", "no_frame_term", "eof_in_frame"}
Needs1 == {"dup_scalar", "dup_scalar_case", "dup_loop_stored", "dup_loop_only"}
CountEol(t) == Cardinality(EolPos(t))
HostItem(i) == <<EOL>> \o Name(i) \o SlotText(slots[i])
HostBefore == Flatten([i \in 1..pos |-> HostItem(i)])
HostAfter == Flatten([i \in 1..(N - pos) |-> HostItem(pos + i)])
Frag == Fragment(defect)
HostItems == [i \in 1..N |-> It(Name(i), SlotVal(slots[i]))]

DefectDoc ==
    IF defect = "no_block_header"
    THEN \* the fragment precedes the first block header
         LET pre == Magic \o Frag.text \o <<EOL>>
         IN [doc |-> pre \o Str("data_b") \o HostBefore \o HostAfter \o TailText(tail),
             shape |-> "tree", code |-> Frag.code, low |-> 2, high |-> 3, alt |-> Frag.alt,
             blocks |-> <<[code |-> <<>>, items |-> Frag.anon, loops |-> <<>>, frames |-> <<>>],
                          [code |-> <<"b">>, items |-> HostItems, loops |-> <<>>, frames |-> <<>>]>>]
    ELSE LET pre == Magic \o Str("data_b") \o HostBefore \o <<EOL>>
             low == CountEol(pre) + 1
         IN [doc |-> pre \o Frag.text \o HostAfter \o TailText(tail),
             shape |-> "tree", code |-> Frag.code, low |-> low, high |-> low + CountEol(Frag.text) + 1 + Frag.extra, alt |-> Frag.alt,
             blocks |-> <<[code |-> <<"b">>, items |-> HostItems \o Frag.items, loops |-> Frag.loops, frames |-> Frag.frames]>> \o Frag.blocks]

\* host slots are chosen as in CifDoc (scalar context); then the defect class and position
DInit == ctx = "scalars" /\ slots = <<>> /\ tail \in TAILS /\ defect = "none" /\ pos = 0
DNext == \/ /\ defect = "none" /\ N < NSlots
            /\ \E v \in VIDS, p \in PRES, s \in SEPS :
                  /\ SlotOK(v, p, s, N + 1)
                  /\ slots' = Append(slots, [v |-> v, p |-> p, s |-> s])
            /\ UNCHANGED <<ctx, tail, defect, pos>>
         \/ /\ defect = "none"
            /\ \E d \in DEFECTS, q \in 0..N :
                  /\ (d \in LastOnly => q = N)
                  /\ (d \in Needs1 => q >= 1)
                  /\ (d \in {"unclosed_text", "unclosed_triple"} => tail = "eof")
                  \* an unterminated quoted string runs to the end of its line: a comment tail on that line would belong to it
                  /\ ((d \in {"missing_endquote", "missing_endquote_dq"} /\ q = N) => tail \in {"eof", "eol", "cmteol"})
                  \* a line of exactly the maximum length stays one only if the tail does not lengthen it
                  /\ ((d \in {"maxlength", "maxlength_u4"} /\ q = N) => tail \in {"eof", "eol", "cmteol"})
                  \* a fragment ending in an open construct at the very end of input needs no follower; one that must be
                  \* followed by a non-value is always followed by a data name, a header or the end of input here
                  /\ defect' = d /\ pos' = q
            /\ UNCHANGED <<ctx, slots, tail>>
DSpec == DInit /\ [][DNext]_dvars

Planted == defect # "none"
\* the fragment text makes the document differ from every well-formed rendering of the same host: it is not the empty text
PlantedIsVisible == Planted => Frag.text # <<>>
EmitDefect == Planted => PrintT(<<"DEFECT", ToJson([defect |-> defect, pos |-> pos, slots |-> slots, tail |-> tail, d |-> DefectDoc])>>)
=============================================================================
