------------------------------- MODULE CifValue -------------------------------
(***************************************************************************)
(* C19 (and the value universe of C07): value objects as a heap of trees   *)
(* with ownership.  Roots are independent values owned by the caller       *)
(* (slots), `refs` are interior references handed out by                   *)
(* get_element_at / get_item_by_key (paths into a root), `pk` is a packet. *)
(* One operator <Call>R per public call yields [en, e, new] as in          *)
(* CifStore: the log entry with the result code and outputs the library is *)
(* expected to produce, and the next state.  Copies are deep by            *)
(* construction (values are trees, not pointers); that the implementation  *)
(* shares no storage is observed by the replay (every root is re-dumped    *)
(* after every call, under AddressSanitizer).                              *)
(***************************************************************************)
EXTENDS Naturals, Sequences, FiniteSets, TLC, Json

CONSTANTS SLOTS,      \* sequence of root slot names
          REFS,       \* sequence of reference names
          TEXTS,      \* strings for char values
          NUMTEXTS,   \* valid number texts for parse_numb (may be empty)
          KEYS,       \* table key spellings; CanonK gives the canonical-equivalence class; "bad" is invalid
          PNAMES,     \* packet item name spellings; FoldN gives the case-folded class; "bad" is invalid
          KINDS,      \* kinds for create / init
          QUOTES,     \* quoting arguments / try flags explored: {} switches the scalar coercions off, {0, 1} on
          GETNUM,     \* which of "get_number", "get_su" are explored
          MaxList, MaxEntries, MaxDepth, MaxHist
CONSTANTS CanonK(_), FoldN(_),
          Class(_)    \* what a char text is for quoting / coercion: "plain", "number", "unk" (?), "na" (.), "reserved",
                      \* "empty", "space" (contains whitespace), "bracket" (contains [ ] { } but no whitespace)

VARIABLES roots,   \* [slot -> value | None]
          refs,    \* [ref -> [root, path] | None]
          pk,      \* packet: [on |-> exists, e |-> sequence of [name (orig), c (folded), v]]
          hist
vars == <<roots, refs, pk, hist>>

OK == 0  ARGUMENT_ERROR == 6  INVALID_ITEMNAME == 42  NOSUCH_ITEM == 43  INVALID_NUMBER == 72  INVALID_INDEX == 73
None == [k |-> "none"]
NoPk == [on |-> FALSE, e |-> <<>>]
U == [k |-> "unk"]
Default(kind) == CASE kind = "char" -> [k |-> "char", t |-> "", q |-> 1] [] kind = "numb" -> [k |-> "numb", t |-> "0", q |-> 0]
                   [] kind = "list" -> [k |-> "list", e |-> <<>>] [] kind = "table" -> [k |-> "table", e |-> <<>>]
                   [] kind = "na" -> [k |-> "na"] [] OTHER -> U
SeqToSet(s) == {s[i] : i \in 1..Len(s)}
Min(S) == CHOOSE x \in S : \A y \in S : x <= y
FreeSlot == LET F == {i \in 1..Len(SLOTS) : roots[SLOTS[i]] = None} IN IF F = {} THEN "" ELSE SLOTS[Min(F)]
RemoveAt(s, i) == [j \in 1..(Len(s) - 1) |-> IF j < i THEN s[j] ELSE s[j + 1]]
InsertAt(s, i, x) == [j \in 1..(Len(s) + 1) |-> IF j < i THEN s[j] ELSE IF j = i THEN x ELSE s[j - 1]]

\* ---- paths: a step is IStep(n) (list index, 1-based here) or KStep(canonical key); both shapes carry both fields
IsIdx(st) == st.i > 0
IStep(n) == [i |-> n, c |-> ""]
KStep(c) == [i |-> 0, c |-> c]
EntryPos(v, c) == {j \in 1..Len(v.e) : v.e[j].c = c}
RECURSIVE At(_, _)
At(v, p) == IF p = <<>> THEN v
            ELSE LET st == Head(p)
                 IN IF IsIdx(st) THEN At(v.e[st.i], Tail(p))
                    ELSE At(v.e[CHOOSE j \in EntryPos(v, st.c) : TRUE].v, Tail(p))
RECURSIVE Upd(_, _, _)
Upd(v, p, new) == IF p = <<>> THEN new
                  ELSE LET st == Head(p)
                       IN IF IsIdx(st) THEN [v EXCEPT !.e[st.i] = Upd(@, Tail(p), new)]
                          ELSE LET j == CHOOSE x \in EntryPos(v, st.c) : TRUE
                               IN [v EXCEPT !.e[j].v = Upd(@, Tail(p), new)]
RECURSIVE Depth(_)
Depth(v) == IF v.k = "list" THEN 1 + (IF v.e = <<>> THEN 0 ELSE LET S == {Depth(v.e[j]) : j \in 1..Len(v.e)} IN CHOOSE x \in S : \A y \in S : y <= x)
            ELSE IF v.k = "table" THEN 1 + (IF v.e = <<>> THEN 0 ELSE LET S == {Depth(v.e[j].v) : j \in 1..Len(v.e)} IN CHOOSE x \in S : \A y \in S : y <= x)
            ELSE 0

\* designators: a root slot or a reference
Desigs == SeqToSet(SLOTS) \cup SeqToSet(REFS)
Live(d) == IF d \in SeqToSet(SLOTS) THEN roots[d] # None ELSE refs[d] # None
RootOf(d) == IF d \in SeqToSet(SLOTS) THEN d ELSE refs[d].root
PathOf(d) == IF d \in SeqToSet(SLOTS) THEN <<>> ELSE refs[d].path
Val(d) == At(roots[RootOf(d)], PathOf(d))
IsPrefix(p, q) == Len(p) <= Len(q) /\ SubSeq(q, 1, Len(p)) = p
\* references strictly below (root, path)
Below(r, p) == {x \in SeqToSet(REFS) : refs[x] # None /\ refs[x].root = r /\ IsPrefix(p, refs[x].path) /\ Len(refs[x].path) > Len(p)}
AtOrBelow(r, p) == {x \in SeqToSet(REFS) : refs[x] # None /\ refs[x].root = r /\ IsPrefix(p, refs[x].path)}
DropRefs(S) == [x \in DOMAIN refs |-> IF x \in S THEN None ELSE refs[x]]
\* replace the value designated by d
SetVal(d, new) == [roots EXCEPT ![RootOf(d)] = Upd(@, PathOf(d), new)]

Cur == [roots |-> roots, refs |-> refs, pk |-> pk]
Off == [en |-> FALSE]
On(e, new) == [en |-> TRUE, e |-> e, new |-> new]

Init == /\ roots = [s \in SeqToSet(SLOTS) |-> None] /\ refs = [r \in SeqToSet(REFS) |-> None] /\ pk = NoPk /\ hist = <<>>

CreateR(kind) == IF FreeSlot = "" THEN Off ELSE
    On([op |-> "value_create", v |-> FreeSlot, kind |-> kind, rc |-> OK], [Cur EXCEPT !.roots[FreeSlot] = Default(kind)])
FreeR(s) == IF roots[s] = None THEN Off ELSE
    On([op |-> "value_free", v |-> s, drop |-> AtOrBelow(s, <<>>)], [Cur EXCEPT !.roots[s] = None, !.refs = DropRefs(AtOrBelow(s, <<>>))])
DumpR(d) == IF ~Live(d) THEN Off ELSE On([op |-> "value_dump", v |-> d, val |-> Val(d)], Cur)

\* (re)initialising calls release the previous content: references into it die
InitR(d, kind) == IF ~Live(d) THEN Off ELSE
    LET dead == Below(RootOf(d), PathOf(d))
    IN On([op |-> "value_op", f |-> "init", v |-> d, kind |-> kind, rc |-> OK, drop |-> dead],
          [Cur EXCEPT !.roots = SetVal(d, Default(kind)), !.refs = DropRefs(dead)])
CopyCharR(d, t) == IF ~Live(d) THEN Off ELSE
    LET dead == Below(RootOf(d), PathOf(d))
    IN On([op |-> "value_op", f |-> "copy_char", v |-> d, text |-> t, rc |-> OK, drop |-> dead],
          [Cur EXCEPT !.roots = SetVal(d, [k |-> "char", t |-> t, q |-> 1]), !.refs = DropRefs(dead)])
\* cif_value_parse_numb: the value becomes a number with the given (valid) text - digits, scale and su are what it denotes
ParseNumbR(d, t) == IF ~Live(d) THEN Off ELSE
    LET dead == Below(RootOf(d), PathOf(d))
    IN On([op |-> "value_op", f |-> "parse_numb", v |-> d, text |-> t, rc |-> OK, drop |-> dead],
          [Cur EXCEPT !.roots = SetVal(d, [k |-> "numb", t |-> t, q |-> 0]), !.refs = DropRefs(dead)])
\* ---- scalar coercions: cif_value_set_quoted / cif_value_try_quoted / cif_value_get_number / cif_value_get_su / cif_value_get_text
\* Presenting a placeholder quoted turns it into the one-character string; presenting "?" or "." unquoted turns it into the
\* placeholder; strings that CIF 2.0 cannot present whitespace-delimited are refused (try_quoted: silently kept quoted
\* when only brackets or braces stand in the way); aggregates cannot be quoted.
Quotable(v, q, try) ==
    CASE v.k = "unk" -> [rc |-> OK, v |-> IF q = 1 THEN [k |-> "char", t |-> "?", q |-> 1] ELSE v]
      [] v.k = "na" -> [rc |-> OK, v |-> IF q = 1 THEN [k |-> "char", t |-> ".", q |-> 1] ELSE v]
      [] v.k \in {"list", "table"} -> [rc |-> IF q = 1 THEN ARGUMENT_ERROR ELSE OK, v |-> v]
      [] v.k = "numb" -> [rc |-> OK, v |-> [v EXCEPT !.q = q]]
      [] OTHER -> IF q = 1 \/ v.q = 0 THEN [rc |-> OK, v |-> [v EXCEPT !.q = q]]
                  ELSE LET c == Class(v.t)
                       IN CASE c \in {"empty", "reserved", "space"} -> [rc |-> ARGUMENT_ERROR, v |-> v]
                            [] c = "unk" -> [rc |-> OK, v |-> U]
                            [] c = "na" -> [rc |-> OK, v |-> [k |-> "na"]]
                            [] c = "bracket" -> [rc |-> IF try = 1 THEN OK ELSE ARGUMENT_ERROR, v |-> v]
                            [] OTHER -> [rc |-> OK, v |-> [v EXCEPT !.q = 0]]
SetQuotedR(d, q, try) == IF ~Live(d) THEN Off ELSE
    LET r == Quotable(Val(d), q, try)
    IN On([op |-> "value_op", f |-> IF try = 1 THEN "try_quoted" ELSE "set_quoted", v |-> d, q |-> q, rc |-> r.rc],
          [Cur EXCEPT !.roots = SetVal(d, r.v)])
\* get_number / get_su: a number answers; a character value whose text is a number BECOMES that number (keeping its
\* quoting) and answers; other character values are refused unchanged; other kinds are an argument error
AsNumber(v) ==
    CASE v.k = "numb" -> [rc |-> OK, v |-> v]
      [] v.k = "char" -> IF Class(v.t) = "number" THEN [rc |-> OK, v |-> [k |-> "numb", t |-> v.t, q |-> v.q]] ELSE [rc |-> INVALID_NUMBER, v |-> v]
      [] OTHER -> [rc |-> ARGUMENT_ERROR, v |-> v]
GetNumberR(d, which) == IF ~Live(d) THEN Off ELSE
    LET r == AsNumber(Val(d))
    IN On([op |-> "value_op", f |-> which, v |-> d, rc |-> r.rc], [Cur EXCEPT !.roots = SetVal(d, r.v)])
GetTextR(d) == IF ~Live(d) THEN Off ELSE
    LET v == Val(d)
    IN On([op |-> "value_op", f |-> "get_text", v |-> d, rc |-> OK, has |-> IF v.k \in {"char", "numb"} THEN 1 ELSE 0,
           text |-> IF v.k \in {"char", "numb"} THEN v.t ELSE ""], Cur)
CloneR(d) == IF ~Live(d) \/ FreeSlot = "" THEN Off ELSE
    On([op |-> "value_op", f |-> "clone", v |-> d, out |-> FreeSlot, rc |-> OK], [Cur EXCEPT !.roots[FreeSlot] = Val(d)])
\* clone onto an existing root.  The source may be the target itself (a value is a copy of itself: nothing changes) or a
\* member of the target at any depth: the target becomes a copy of what the member was, and every reference into the old
\* target - the source's own included - dies with it
CloneIntoR(d, s) == IF ~Live(d) \/ roots[s] = None THEN Off ELSE
    IF d = s THEN On([op |-> "value_op", f |-> "clone", v |-> d, out |-> s, into |-> 1, rc |-> OK, drop |-> {}], Cur) ELSE
    LET dead == Below(s, <<>>)
    IN On([op |-> "value_op", f |-> "clone", v |-> d, out |-> s, into |-> 1, rc |-> OK, drop |-> dead],
          [Cur EXCEPT !.roots[s] = Val(d), !.refs = DropRefs(dead)])
CountR(d) == IF ~Live(d) THEN Off ELSE
    LET v == Val(d) IN
    On([op |-> "value_op", f |-> "count", v |-> d, rc |-> IF v.k \in {"list", "table"} THEN OK ELSE ARGUMENT_ERROR,
        n |-> IF v.k \in {"list", "table"} THEN Len(v.e) ELSE 0], Cur)

\* ---- lists (indices are 0-based in the log, 1-based in the model)
FreeRef == LET F == {i \in 1..Len(REFS) : refs[REFS[i]] = None} IN IF F = {} THEN "" ELSE REFS[Min(F)]
GetAtR(d, i) == IF ~Live(d) \/ FreeRef = "" \/ Len(PathOf(d)) >= MaxDepth THEN Off ELSE
    LET v == Val(d)
        rc == IF v.k # "list" THEN ARGUMENT_ERROR ELSE IF i >= Len(v.e) THEN INVALID_INDEX ELSE OK
    IN On([op |-> "value_op", f |-> "get_at", v |-> d, index |-> i, out |-> FreeRef, rc |-> rc],
          IF rc = OK THEN [Cur EXCEPT !.refs[FreeRef] = [root |-> RootOf(d), path |-> Append(PathOf(d), IStep(i + 1))]] ELSE Cur)
\* arg: a designator, or "NULL"
ArgVal(a) == IF a = "NULL" THEN U ELSE Val(a)
SameObject(d, st, a) == a # "NULL" /\ RootOf(a) = RootOf(d) /\ PathOf(a) = Append(PathOf(d), st)
SetAtR(d, i, a) == IF ~Live(d) \/ (a # "NULL" /\ ~Live(a)) THEN Off ELSE
    LET v == Val(d)
        rc == IF v.k # "list" THEN ARGUMENT_ERROR ELSE IF i >= Len(v.e) THEN INVALID_INDEX ELSE OK
        st == IStep(i + 1)
        same == rc = OK /\ SameObject(d, st, a)
        p == Append(PathOf(d), st)
        dead == IF rc = OK /\ ~same THEN Below(RootOf(d), p) ELSE {}
        new == IF rc = OK /\ ~same THEN Upd(v, <<st>>, ArgVal(a)) ELSE v
    IN IF rc = OK /\ Depth(new) + Len(PathOf(d)) > MaxDepth THEN Off ELSE
       On([op |-> "value_op", f |-> "set_at", v |-> d, index |-> i, arg |-> a, rc |-> rc, drop |-> dead],
          [Cur EXCEPT !.roots = SetVal(d, new), !.refs = DropRefs(dead)])
ShiftRefs(r, p, from, by) ==   \* references through list (r, p) at index >= from move by `by` (+1 / -1)
    [x \in DOMAIN refs |-> IF refs[x] # None /\ refs[x].root = r /\ IsPrefix(p, refs[x].path) /\ Len(refs[x].path) > Len(p)
                               /\ IsIdx(refs[x].path[Len(p) + 1]) /\ refs[x].path[Len(p) + 1].i >= from
                           THEN [refs[x] EXCEPT !.path[Len(p) + 1].i = IF by = 1 THEN @ + 1 ELSE @ - 1]
                           ELSE refs[x]]
InsertAtR(d, i, a) == IF ~Live(d) \/ (a # "NULL" /\ ~Live(a)) THEN Off ELSE
    LET v == Val(d)
        rc == IF v.k # "list" THEN ARGUMENT_ERROR ELSE IF i > Len(v.e) THEN INVALID_INDEX ELSE OK
        new == IF rc = OK THEN [v EXCEPT !.e = InsertAt(@, i + 1, ArgVal(a))] ELSE v
    IN IF rc = OK /\ (Len(v.e) >= MaxList \/ Depth(new) + Len(PathOf(d)) > MaxDepth) THEN Off ELSE
       On([op |-> "value_op", f |-> "insert_at", v |-> d, index |-> i, arg |-> a, rc |-> rc],
          [Cur EXCEPT !.roots = SetVal(d, new), !.refs = IF rc = OK THEN ShiftRefs(RootOf(d), PathOf(d), i + 1, 1) ELSE refs])
\* the removed member is handed to the caller (cap = 1: into a free slot) or released
RemoveAtR(d, i, cap) == IF ~Live(d) \/ (cap = 1 /\ FreeSlot = "") THEN Off ELSE
    LET v == Val(d)
        rc == IF v.k # "list" THEN ARGUMENT_ERROR ELSE IF i >= Len(v.e) THEN INVALID_INDEX ELSE OK
        p == Append(PathOf(d), IStep(i + 1))
        dead == IF rc = OK THEN AtOrBelow(RootOf(d), p) ELSE {}
        shifted == IF rc = OK THEN [x \in DOMAIN refs |-> IF x \in dead THEN None ELSE ShiftRefs(RootOf(d), PathOf(d), i + 2, 0)[x]] ELSE refs
        r1 == IF rc = OK THEN SetVal(d, [v EXCEPT !.e = RemoveAt(@, i + 1)]) ELSE roots
    IN On([op |-> "value_op", f |-> "remove_at", v |-> d, index |-> i, out |-> IF cap = 1 THEN FreeSlot ELSE "", rc |-> rc, drop |-> dead],
          [Cur EXCEPT !.roots = IF rc = OK /\ cap = 1 THEN [r1 EXCEPT ![FreeSlot] = v.e[i + 1]] ELSE r1, !.refs = shifted])

\* ---- tables: keys are matched by canonical equivalence and enumerate in the spelling used last
ValidK(key) == key # "bad"
GetKeysR(d) == IF ~Live(d) THEN Off ELSE
    LET v == Val(d) IN
    On([op |-> "value_op", f |-> "get_keys", v |-> d, rc |-> IF v.k = "table" THEN OK ELSE ARGUMENT_ERROR,
        keys |-> IF v.k = "table" THEN {v.e[j].key : j \in 1..Len(v.e)} ELSE {}], Cur)
\* (a table entered into itself under a new spelling of an existing key is left out: which spelling the copy carries is open)
SetKeyR(d, key, a) == IF ~Live(d) \/ (a # "NULL" /\ ~Live(a)) \/ (a # "NULL" /\ RootOf(a) = RootOf(d) /\ IsPrefix(PathOf(a), PathOf(d))) THEN Off ELSE
    LET v == Val(d)
        c == CanonK(key)
        rc == IF v.k # "table" THEN ARGUMENT_ERROR ELSE IF ~ValidK(key) THEN INVALID_INDEX ELSE OK
        ex == rc = OK /\ EntryPos(v, c) # {}
        st == KStep(c)
        same == ex /\ SameObject(d, st, a)
        j == CHOOSE x \in EntryPos(v, c) : TRUE
        dead == IF ex /\ ~same THEN Below(RootOf(d), Append(PathOf(d), st)) ELSE {}
        new == IF rc # OK THEN v
               ELSE IF ex THEN [v EXCEPT !.e[j] = [key |-> key, c |-> c, v |-> IF same THEN @.v ELSE ArgVal(a)]]
               ELSE [v EXCEPT !.e = Append(@, [key |-> key, c |-> c, v |-> ArgVal(a)])]
    IN IF rc = OK /\ ((~ex /\ Len(v.e) >= MaxEntries) \/ Depth(new) + Len(PathOf(d)) > MaxDepth) THEN Off ELSE
       On([op |-> "value_op", f |-> "set_key", v |-> d, key |-> key, arg |-> a, rc |-> rc, drop |-> dead],
          [Cur EXCEPT !.roots = SetVal(d, new), !.refs = DropRefs(dead)])
GetKeyR(d, key, want) == IF ~Live(d) \/ (want = 1 /\ (FreeRef = "" \/ Len(PathOf(d)) >= MaxDepth)) THEN Off ELSE
    LET v == Val(d)
        c == CanonK(key)
        rc == IF v.k # "table" THEN ARGUMENT_ERROR ELSE IF ~ValidK(key) \/ EntryPos(v, c) = {} THEN NOSUCH_ITEM ELSE OK
    IN On([op |-> "value_op", f |-> "get_key", v |-> d, key |-> key, out |-> IF want = 1 THEN FreeRef ELSE "", rc |-> rc],
          IF rc = OK /\ want = 1 THEN [Cur EXCEPT !.refs[FreeRef] = [root |-> RootOf(d), path |-> Append(PathOf(d), KStep(c))]] ELSE Cur)
RemoveKeyR(d, key, cap) == IF ~Live(d) \/ (cap = 1 /\ FreeSlot = "") THEN Off ELSE
    LET v == Val(d)
        c == CanonK(key)
        rc == IF v.k # "table" THEN ARGUMENT_ERROR ELSE IF ~ValidK(key) \/ EntryPos(v, c) = {} THEN NOSUCH_ITEM ELSE OK
        j == CHOOSE x \in EntryPos(v, c) : TRUE
        dead == IF rc = OK THEN AtOrBelow(RootOf(d), Append(PathOf(d), KStep(c))) ELSE {}
        r1 == IF rc = OK THEN SetVal(d, [v EXCEPT !.e = RemoveAt(@, j)]) ELSE roots
    IN On([op |-> "value_op", f |-> "remove_key", v |-> d, key |-> key, out |-> IF cap = 1 THEN FreeSlot ELSE "", rc |-> rc, drop |-> dead],
          [Cur EXCEPT !.roots = IF rc = OK /\ cap = 1 THEN [r1 EXCEPT ![FreeSlot] = v.e[j].v] ELSE r1, !.refs = DropRefs(dead)])

\* ---- packets: the same map contract with data-name matching (case-insensitive, normalised)
ValidN(n) == n # "bad"
PkPos(c) == {j \in 1..Len(pk.e) : pk.e[j].c = c}
\* (repeating a name in the list given to cif_packet_create is left out: the header does not say what it means)
PacketCreateR(names) == IF pk.on \/ (\E i, j \in 1..Len(names) : i # j /\ FoldN(names[i]) = FoldN(names[j])) THEN Off ELSE
    LET bad == \E i \in 1..Len(names) : ~ValidN(names[i])
        \* a repeated name (under folding) yields one entry
        uniq == {i \in 1..Len(names) : \A j \in 1..(i - 1) : FoldN(names[j]) # FoldN(names[i])}
        RECURSIVE Build(_)
        Build(i) == IF i > Len(names) THEN <<>> ELSE (IF i \in uniq THEN <<[name |-> names[i], c |-> FoldN(names[i]), v |-> U]>> ELSE <<>>) \o Build(i + 1)
    IN On([op |-> "packet_create", p |-> "p1", names |-> names, rc |-> IF bad THEN INVALID_ITEMNAME ELSE OK],
          IF bad THEN Cur ELSE [Cur EXCEPT !.pk = [on |-> TRUE, e |-> Build(1)]])
PacketFreeR == IF ~pk.on THEN Off ELSE On([op |-> "packet_op", f |-> "free", p |-> "p1"], [Cur EXCEPT !.pk = NoPk])
PacketNamesR == IF ~pk.on THEN Off ELSE
    On([op |-> "packet_op", f |-> "get_names", p |-> "p1", rc |-> OK, names |-> [j \in 1..Len(pk.e) |-> pk.e[j].name]], Cur)
PacketDumpR == IF ~pk.on THEN Off ELSE
    On([op |-> "packet_op", f |-> "dump", p |-> "p1", pkt |-> {<<pk.e[j].name, pk.e[j].v>> : j \in 1..Len(pk.e)}], Cur)
PacketSetR(n, a) == IF ~pk.on \/ (a # "NULL" /\ ~Live(a)) THEN Off ELSE
    LET c == FoldN(n)
        rc == IF ~ValidN(n) THEN INVALID_ITEMNAME ELSE OK
        ex == rc = OK /\ PkPos(c) # {}
        j == CHOOSE x \in PkPos(c) : TRUE
    IN IF rc = OK /\ ~ex /\ Len(pk.e) >= MaxEntries THEN Off ELSE
       On([op |-> "packet_op", f |-> "set", p |-> "p1", name |-> n, arg |-> a, rc |-> rc],
          IF rc # OK THEN Cur
          ELSE IF ex THEN [Cur EXCEPT !.pk.e[j] = [name |-> n, c |-> c, v |-> ArgVal(a)]]   \* enumerates in the spelling used last
          ELSE [Cur EXCEPT !.pk.e = Append(@, [name |-> n, c |-> c, v |-> ArgVal(a)])])
PacketGetR(n) == IF ~pk.on THEN Off ELSE
    LET c == FoldN(n)
        found == ValidN(n) /\ PkPos(c) # {}
    IN On([op |-> "packet_op", f |-> "get", p |-> "p1", name |-> n, rc |-> IF found THEN OK ELSE NOSUCH_ITEM], Cur)
PacketRemoveR(n, cap) == IF ~pk.on \/ (cap = 1 /\ FreeSlot = "") THEN Off ELSE
    LET c == FoldN(n)
        found == ValidN(n) /\ PkPos(c) # {}
        j == CHOOSE x \in PkPos(c) : TRUE
    IN On([op |-> "packet_op", f |-> "remove", p |-> "p1", name |-> n, out |-> IF cap = 1 THEN FreeSlot ELSE "", rc |-> IF found THEN OK ELSE NOSUCH_ITEM],
          IF ~found THEN Cur
          ELSE [Cur EXCEPT !.pk.e = RemoveAt(@, j), !.roots = IF cap = 1 THEN [@ EXCEPT ![FreeSlot] = pk.e[j].v] ELSE @])

-----------------------------------------------------------------------------
Idx == 0..MaxList
Args == Desigs \cup {"NULL"}
NameSeqs == UNION {[1..n -> PNAMES] : n \in 0..2}
Results ==
    {CreateR(k) : k \in KINDS} \cup {FreeR(s) : s \in SeqToSet(SLOTS)} \cup {DumpR(d) : d \in Desigs}
    \cup {InitR(d, k) : d \in Desigs, k \in KINDS} \cup {CopyCharR(d, t) : d \in Desigs, t \in TEXTS}
    \cup {ParseNumbR(d, t) : d \in Desigs, t \in NUMTEXTS}
    \cup {SetQuotedR(d, q, t) : d \in Desigs, q \in QUOTES, t \in QUOTES} \cup {GetNumberR(d, w) : d \in Desigs, w \in GETNUM}
    \cup {GetTextR(d) : d \in Desigs}
    \cup {CloneR(d) : d \in Desigs} \cup {CloneIntoR(d, s) : d \in Desigs, s \in SeqToSet(SLOTS)} \cup {CountR(d) : d \in Desigs}
    \cup {GetAtR(d, i) : d \in Desigs, i \in Idx} \cup {SetAtR(d, i, a) : d \in Desigs, i \in Idx, a \in Args}
    \cup {InsertAtR(d, i, a) : d \in Desigs, i \in Idx, a \in Args} \cup {RemoveAtR(d, i, c) : d \in Desigs, i \in Idx, c \in {0, 1}}
    \cup {GetKeysR(d) : d \in Desigs} \cup {SetKeyR(d, k, a) : d \in Desigs, k \in KEYS, a \in Args}
    \cup {GetKeyR(d, k, w) : d \in Desigs, k \in KEYS, w \in {0, 1}} \cup {RemoveKeyR(d, k, c) : d \in Desigs, k \in KEYS, c \in {0, 1}}
    \cup {PacketCreateR(ns) : ns \in NameSeqs} \cup {PacketFreeR, PacketNamesR, PacketDumpR}
    \cup {PacketSetR(n, a) : n \in PNAMES, a \in Args} \cup {PacketGetR(n) : n \in PNAMES} \cup {PacketRemoveR(n, c) : n \in PNAMES, c \in {0, 1}}
EnabledResults == {r \in Results : r.en}
Probes == {r.e : r \in {x \in EnabledResults : x.new = Cur}}
Next == \E r \in EnabledResults :
           /\ Len(hist) < MaxHist /\ r.new # Cur
           /\ roots' = r.new.roots /\ refs' = r.new.refs /\ pk' = r.new.pk /\ hist' = Append(hist, r.e)
Spec == Init /\ [][Next]_vars

\* ---- the property (C19) on the model ----
RefsValid == \A x \in SeqToSet(REFS) : refs[x] # None => roots[refs[x].root] # None
\* every reference designates an existing member (the ownership forest has no dangling edge)
RECURSIVE Exists(_, _)
Exists(v, p) == IF p = <<>> THEN TRUE
                ELSE LET st == Head(p)
                     IN IF IsIdx(st) THEN v.k = "list" /\ st.i <= Len(v.e) /\ Exists(v.e[st.i], Tail(p))
                        ELSE v.k = "table" /\ EntryPos(v, st.c) # {} /\ Exists(v.e[CHOOSE j \in EntryPos(v, st.c) : TRUE].v, Tail(p))
NoDangling == \A x \in SeqToSet(REFS) : refs[x] # None => Exists(roots[refs[x].root], refs[x].path)
\* a table never holds two entries for canonically equivalent keys; a packet never two for equivalent names
RECURSIVE KeysUnique(_)
KeysUnique(v) == IF v.k = "table" THEN (\A i, j \in 1..Len(v.e) : v.e[i].c = v.e[j].c => i = j) /\ \A i \in 1..Len(v.e) : KeysUnique(v.e[i].v)
                 ELSE IF v.k = "list" THEN \A i \in 1..Len(v.e) : KeysUnique(v.e[i]) ELSE TRUE
MapsAreMaps == /\ \A s \in SeqToSet(SLOTS) : roots[s] # None => KeysUnique(roots[s])
               /\ \A i, j \in 1..Len(pk.e) : pk.e[i].c = pk.e[j].c => i = j
\* clone yields an equal value, and modifying one root never changes another (action property)
LastE == hist[Len(hist)]
CloneEqual == [][(Len(hist') > Len(hist) /\ LastE'.op = "value_op" /\ LastE'.f = "clone") => roots'[LastE'.out] = At(roots[RootOf(LastE'.v)], PathOf(LastE'.v))]_vars
\* a call on a designator changes at most the root it lives in, and the root a removed member is handed to
OthersIntact == [][\A s \in SeqToSet(SLOTS) :
                      (Len(hist') > Len(hist) /\ roots'[s] # roots[s]) =>
                          \/ ("v" \in DOMAIN LastE' /\ (LastE'.v = s \/ (LastE'.v \in SeqToSet(REFS) /\ refs[LastE'.v] # None /\ refs[LastE'.v].root = s)))
                          \/ ("out" \in DOMAIN LastE' /\ LastE'.out = s)]_vars
Model == RefsValid /\ NoDangling /\ MapsAreMaps

StateOut == [roots |-> roots, refs |-> [x \in DOMAIN refs |-> IF refs[x] = None THEN None ELSE Val(x)], pk |-> [on |-> pk.on, e |-> [j \in 1..Len(pk.e) |-> <<pk.e[j].name, pk.e[j].v>>]]]
EmitState == PrintT(<<"STATE", ToJson([h |-> hist, s |-> StateOut, probes |-> Probes])>>)
EmitEdge == PrintT(<<"EDGE", ToJson([h |-> hist', s |-> StateOut'])>>)
View == <<roots, refs, pk>>
=============================================================================
