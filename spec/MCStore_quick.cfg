SPECIFICATION Spec
CONSTANTS
  CIFS = {"c1"}
  CODES = {"a", "A", "bad"}
  NAMES = {"_x", "_X", "_y", "bad"}
  CATS = {"NULL", "", "k"}
  VALS = {"u", "s1"}
  PVALS = {"s1", "s2"}
  CSLOTS <- MCCSlots2
  LSLOTS <- MCLSlots2
  MaxId = 2
  MaxDepth = 2
  MaxNl = 2
  MaxLast = 2
  MaxNames = 2
  MaxPkt = 2
  MaxHist = 6
  MaxLoopsPerCont = 2
  SCRIPT <- NoScript
  FOREIGN = FALSE
  DOCS <- NoDocs
  NormC <- MCNormC
  ValidC <- MCValidC
  NormN <- MCNormN
  ValidN <- MCValidN
VIEW View
INVARIANT DataModel
INVARIANT ItrDeliversOnce
PROPERTY ScalarCategoryStable OtherCifUnchanged FailedCallAtomic AbortReverts CloseCommits ItrTouchesOnlyCurrent
CHECK_DEADLOCK FALSE
