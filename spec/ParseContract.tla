--------------------------- MODULE ParseContract ---------------------------
(***************************************************************************)
(* C03: the contract between cif_parse() and its caller, as a monitor over *)
(* the interface events of many executions recorded by the harness:        *)
(*   start(valid, mode)    a parse begins; mode "cb": the harness's        *)
(*                         scripted callback, "die": default handler       *)
(*   err(code, line, len, textnull, ans)   error-callback invocation       *)
(*   ret(rc, first)        cif_parse returned; `first` = first code an     *)
(*                         all-accepting parse of the same input reported  *)
(*   post(walk, write, modify, destroy)  the target CIF used afterwards    *)
(*   lost()                the execution never returned (crash, timeout)   *)
(* TLC consumes the events one per step (variable l) and evaluates the     *)
(* contract predicate of each; a breach is reported with its position.     *)
(* INVARIANT NotAccepted is violated exactly when the whole trace has been *)
(* consumed (which proves that every event was judged).                    *)
(***************************************************************************)
EXTENDS Naturals, Integers, Sequences, FiniteSets, TLC, Json, IOUtils

TraceLog == ndJsonDeserialize(IOEnv.TRACE)

VARIABLES l,        \* next event
          phase,    \* "idle" | "running" | "returned"
          mode, valid,
          nerr,     \* callbacks seen in this execution
          stopped,  \* the answer that must end the parse (0: none yet)
          lastrc,   \* what the parse returned
          charerr   \* a character-level error (invalid / unmapped / disallowed character) was accepted in this execution
vars == <<l, phase, mode, valid, nerr, stopped, lastrc, charerr>>
\* recoveries documented to leave something that is "not a valid instance of the CIF data model", or characters outside the allowed set
CharCodes == {102, 103, 104, 109, 113, 12, 22, 140}

\* result codes defined by cif.h (read by the driver at check time and passed along in the first record)
Defined == {TraceLog[1].codes[i] : i \in 1..Len(TraceLog[1].codes)}
MEMORY_ERROR == 3  ERROR == 2

Ev == TraceLog[l]
Is(k) == l <= Len(TraceLog) /\ Ev.e = k

\* ---- what the contract demands of each event, given the monitor state ----
OkStart == phase \in {"idle", "returned"}
OkErr == /\ phase = "running" /\ mode = "cb"
         /\ stopped = 0                       \* nothing may follow an answer that aborts the parse
         /\ Ev.line >= 1
         /\ Ev.code \in Defined /\ Ev.code > 0
OkRet == /\ phase = "running"
         /\ LET rc == Ev.rc IN
            IF mode = "die"
            THEN rc = Ev.first        \* default handler: exactly the first code an all-accepting parse reports (0 if none)
            ELSE IF stopped # 0 THEN rc = stopped
            ELSE \/ rc = 0
                 \/ /\ rc \in Defined
                    /\ (valid = 1 => (nerr >= 1 \/ rc = MEMORY_ERROR))     \* resource exhaustion aside; the harness reads from memory, so there is no I/O failure to set aside
\* an aborted parse may leave a loop whose packets were never read: walking / writing then reports CIF_EMPTY_LOOP
OkPost == /\ phase = "returned"
          /\ Ev.walk \in (IF lastrc = 0 THEN {0} ELSE {0, 36})
          \* a CIF holding characters the parser was told to accept although they are not allowed may be refused by the writer
          /\ Ev.write \in (IF charerr THEN Defined ELSE IF lastrc = 0 THEN {0, 62} ELSE {0, 36, 62})
          /\ Ev.modify = 0 /\ Ev.destroy = 0
Ok == CASE Ev.e = "codes" -> TRUE [] Ev.e = "start" -> OkStart [] Ev.e = "err" -> OkErr [] Ev.e = "ret" -> OkRet
        [] Ev.e = "post" -> OkPost [] OTHER -> FALSE

\* The monitor never blocks: a breach is printed with its position and the state is advanced leniently, so that one TLC
\* run judges every execution of the trace.
Step == /\ l <= Len(TraceLog)
        /\ (IF Ok THEN TRUE ELSE PrintT(<<"BREACH", l>>))
        /\ l' = l + 1
        /\ phase' = CASE Ev.e = "start" -> "running" [] Ev.e = "ret" -> "returned" [] OTHER -> phase
        /\ mode' = IF Ev.e = "start" THEN Ev.mode ELSE mode
        /\ valid' = IF Ev.e = "start" THEN Ev.valid ELSE valid
        /\ nerr' = CASE Ev.e = "start" -> 0 [] Ev.e = "err" -> nerr + 1 [] OTHER -> nerr
        /\ stopped' = CASE Ev.e = "start" -> 0 [] Ev.e = "err" -> (IF stopped = 0 THEN Ev.ans ELSE stopped) [] OTHER -> stopped
        /\ lastrc' = IF Ev.e = "ret" THEN Ev.rc ELSE lastrc
        /\ charerr' = CASE Ev.e = "start" -> FALSE [] Ev.e = "err" -> (charerr \/ Ev.code \in CharCodes) [] OTHER -> charerr
Next == Step
Init == l = 1 /\ phase = "idle" /\ mode = "cb" /\ valid = 1 /\ nerr = 0 /\ stopped = 0 /\ lastrc = 0 /\ charerr = FALSE
Spec == Init /\ [][Next]_vars

NotAccepted == l <= Len(TraceLog)
=============================================================================
